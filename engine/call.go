package main

import (
	"fmt"
	"go/ast"
	"go/parser"
	"go/token"
	"go/types"
	"regexp"
	"sort"
	"strings"

	"golang.org/x/tools/go/ssa"
)

type callTarget struct {
	call     *ssa.CallCommon
	static   *ssa.Function
	fnTerm   *Term
	bindings []*Term
	args     []*Term
	argTys   []types.Type
	recv     *Term
	builtin  string
	sig      *types.Signature
	ifaceT   types.Type
	method   *types.Func
}

func (v *Verifier) resolveCall(st *State, c *ssa.CallCommon) *callTarget {
	tg := &callTarget{call: c, sig: c.Signature()}
	for _, a := range c.Args {
		tg.args = append(tg.args, v.val(st, a))
		tg.argTys = append(tg.argTys, a.Type())
	}
	if c.IsInvoke() {
		tg.recv = v.val(st, c.Value)
		tg.ifaceT = c.Value.Type()
		tg.method = c.Method
		return tg
	}
	switch f := c.Value.(type) {
	case *ssa.Builtin:
		tg.builtin = f.Name()
	case *ssa.Function:
		tg.static = f
	case *ssa.MakeClosure:
		tg.static = f.Fn.(*ssa.Function)
		for _, b := range f.Bindings {
			tg.bindings = append(tg.bindings, v.val(st, b))
		}
	default:
		tg.fnTerm = v.val(st, c.Value)
	}
	return tg
}

func (v *Verifier) bindResults(st *State, bind ssa.Value, rs []*Term) {
	if bind == nil {
		return
	}
	f := st.top()
	if len(rs) == 1 {
		f.vals[bind] = rs[0]
	} else if len(rs) > 1 {
		f.tuples[bind] = rs
	}
}

func (v *Verifier) freshResults(st *State, sig *types.Signature, why string) []*Term {
	var rs []*Term
	for i := 0; i < sig.Results().Len(); i++ {
		ty := sig.Results().At(i).Type()
		r := v.Y.fresh(v.D, why, v.sortOf(ty))
		v.addTypeFacts(st, r, ty)
		rs = append(rs, r)
	}
	return rs
}

// havocAll forgets the whole heap (sound treatment of unknown calls)
func (v *Verifier) havocAll(st *State, why string) {
	for _, k := range sortedKeys(st.heap) {
		h := st.heap[k]
		h.regionHavoc(v.Y.fresh(v.D, "hall_"+why, h.arraySort()), predAll)
		if v.col != nil {
			st.colW = append(st.colW, wrec{key: "ALLKEY:" + k})
		}
	}
	if v.col != nil {
		st.colW = append(st.colW, wrec{key: "ALLKEY:" + "*"})
	}
	for g := range st.ghost {
		st.ghost[g] = v.Y.fresh(v.D, "gall", st.ghost[g].Sort)
	}
	st.globalHavocs = append(st.globalHavocs, modLoc{kind: "heap"})
	st.havocEpoch++
}

// applyCall performs a call. It returns true if execution continues with the next instruction in the
// caller's run loop; false if control was handed to an inlined callee.
func (v *Verifier) applyCall(st *State, tg *callTarget, bind ssa.Value, b *ssa.BasicBlock, nextIdx int, in ssa.Instruction) bool {
	caller := st.top()
	if tg.builtin != "" {
		v.builtin(st, tg, bind, in)
		return true
	}
	if tg.recv != nil {
		// interface method call
		v.safe(st, "nil:invoke", tNot(ifaceIsNil(tg.recv)), in)
		con, ipkg := v.ifaceContract(tg.ifaceT, tg.method.Name())
		if con != nil {
			args := append([]*Term{tg.recv}, tg.args...)
			tys := append([]types.Type{tg.ifaceT}, tg.argTys...)
			rs := v.applyContract(st, con, ipkg, nil, tg.sig, args, tys, nil, in, "invoke "+typeStr(tg.ifaceT)+"."+tg.method.Name())
			v.bindResults(st, bind, rs)
			return true
		}
		// devirtualise when the receiver is a syntactic box of a known type
		if strings.HasPrefix(tg.recv.Op, "zz_box_") {
			if id, ok := isIntLit(tg.recv.Args[0]); ok {
				for ts, tid := range v.D.tids {
					if int64(tid) == id {
						ty := v.D.tidTy[ts]
						if sel := v.P.Prog.MethodSets.MethodSet(ty).Lookup(tg.method.Pkg(), tg.method.Name()); sel != nil {
							if fn := v.P.Prog.MethodValue(sel); fn != nil {
								t2 := *tg
								t2.recv = nil
								t2.static = fn
								t2.args = append([]*Term{tg.recv.Args[1]}, tg.args...)
								t2.argTys = append([]types.Type{ty}, tg.argTys...)
								return v.applyCall(st, &t2, bind, b, nextIdx, in)
							}
						}
					}
				}
			}
		}
		v.note("unknown interface call (heap havocked): " + typeStr(tg.ifaceT) + "." + tg.method.Name())
		v.havocAll(st, "invoke")
		v.bindResults(st, bind, v.freshResults(st, tg.sig, "inv"))
		return true
	}
	if tg.fnTerm != nil {
		// dynamic call through a func value
		if fn, ok := v.fnByOp[tg.fnTerm.Op]; ok {
			t2 := *tg
			t2.fnTerm = nil
			t2.static = fn
			t2.bindings = tg.fnTerm.Args
			return v.applyCall(st, &t2, bind, b, nextIdx, in)
		}
		v.safe(st, "nil:funcvalue", tNot(tEq(tg.fnTerm, tNilF)), in)
		con, cpkg := v.funcTypeContract(tg.sig)
		if con == nil {
			con, cpkg = v.fieldFuncContract(tg.call)
		}
		if con != nil {
			args := append([]*Term{tg.fnTerm}, tg.args...)
			tys := append([]types.Type{tg.sig}, tg.argTys...)
			rs := v.applyContract(st, con, cpkg, nil, tg.sig, args, tys, nil, in, "functype "+con.Name)
			v.bindResults(st, bind, rs)
			return true
		}
		v.note("unknown dynamic call (heap havocked): " + typeStr(tg.sig))
		v.havocAll(st, "dyn")
		v.bindResults(st, bind, v.freshResults(st, tg.sig, "dyn"))
		return true
	}
	fn := tg.static
	org := originOf(fn)
	full := org.String()
	// nocalls: the verified function itself (its own body and what is inlined into it) must never reach such a callee
	if v.curCon != nil && v.col == nil {
		for _, nc := range v.curCon.NoCalls {
			if strings.HasPrefix(full, nc.Src) {
				v.emit(st, "frame", "nocall:"+nc.Label, nc.Tags, tFalse, "this function must not call "+nc.Src+"... itself (it calls "+full+")", posOf(in.Parent(), in.Pos()))
			}
		}
	}
	// sync.Pool
	if full == "(*sync.Pool).Get" || full == "(*sync.Pool).Put" {
		v.poolCall(st, tg, bind, in, full)
		return true
	}
	// a package initialiser first runs the initialisers of its imports: out of scope (their package-level
	// state is covered by the contracts of whatever reads it)
	if org.Name() == "init" && org.Signature.Recv() == nil && org.Parent() == nil && caller.fn.Name() == "init" && org.Pkg != caller.fn.Pkg {
		return true
	}
	con, cpkg := v.contractFor(org)
	if con != nil {
		calleeSubst := v.calleeSubst(fn, caller)
		rs := v.applyContractS(st, con, cpkg, org, tg.sig, tg.args, tg.argTys, tg.bindings, in, fnKey(org), calleeSubst)
		v.bindResults(st, bind, rs)
		return true
	}
	inModule := org.Pkg != nil && v.P.SSAPkgs[org.Pkg.Pkg.Path()] != nil
	if org.Pkg == nil {
		// synthetic wrapper / bound method etc.
		inModule = len(org.Blocks) > 0
	}
	if len(fn.Blocks) > 0 && len(org.Blocks) > 0 && inModule || (fn.Synthetic != "" && len(fn.Blocks) > 0) {
		body := fn
		var targs map[string]types.Type
		if fn != org && fn.Synthetic != "" && len(fn.TypeArgs()) > 0 && len(org.Blocks) > 0 {
			// instantiation wrapper: execute the generic body with the substitution
			body = org
			targs = v.calleeSubst(fn, caller)
		} else if fn == org {
			targs = caller.typeArgs
			if org.Parent() == nil && org.TypeParams().Len() > 0 {
				targs = nil
			}
		}
		// recursion / depth guard
		depth := 0
		for _, fr := range st.frames {
			if fr.fn == body {
				depth += 100
			}
			depth++
		}
		if depth <= 8 {
			nf := &Frame{fn: body, vals: map[ssa.Value]*Term{}, tuples: map[ssa.Value][]*Term{}, loops: map[*ssa.BasicBlock]*loopCut{}, typeArgs: targs,
				ret: &retPoint{block: b, idx: nextIdx, bind: bind}}
			for i, p := range body.Params {
				if i < len(tg.args) {
					nf.vals[p] = tg.args[i]
				}
			}
			for i, fv := range body.FreeVars {
				if i < len(tg.bindings) {
					nf.vals[fv] = tg.bindings[i]
				}
			}
			st.frames = append(st.frames, nf)
			v.subst = targs
			v.run(st, body.Blocks[0], 0)
			return false
		}
		v.note("inline depth exceeded (heap havocked): " + full)
		v.havocAll(st, "depth")
		v.bindResults(st, bind, v.freshResults(st, tg.sig, "deep"))
		return true
	}
	// external function without a trusted contract
	v.note("extern-unspecified (result arbitrary, heap assumed untouched): " + full)
	v.bindResults(st, bind, v.freshResults(st, tg.sig, "ext"))
	return true
}

// calleeSubst maps the callee's type parameter names to the caller's (substituted) type arguments.
func (v *Verifier) calleeSubst(fn *ssa.Function, caller *Frame) map[string]types.Type {
	org := originOf(fn)
	targs := fn.TypeArgs()
	if len(targs) == 0 {
		return nil
	}
	var tps *types.TypeParamList
	if org.Signature.Recv() != nil {
		rt := org.Signature.Recv().Type()
		if p, ok := rt.(*types.Pointer); ok {
			rt = p.Elem()
		}
		if n, ok := rt.(*types.Named); ok {
			tps = n.TypeParams()
			if tps.Len() == 0 {
				// receiver type args are the type params of the origin
				ta := n.TypeArgs()
				m := map[string]types.Type{}
				for i := 0; i < ta.Len() && i < len(targs); i++ {
					if tp, ok := ta.At(i).(*types.TypeParam); ok {
						m[tp.Obj().Name()] = substType(targs[i], caller.typeArgs, 0)
					}
				}
				return m
			}
		}
	} else {
		tps = org.TypeParams()
		if tps.Len() == 0 && org.Parent() != nil {
			p := org
			for p.Parent() != nil {
				p = p.Parent()
			}
			tps = p.TypeParams()
		}
	}
	m := map[string]types.Type{}
	if tps != nil {
		for i := 0; i < tps.Len() && i < len(targs); i++ {
			m[tps.At(i).Obj().Name()] = substType(targs[i], caller.typeArgs, 0)
		}
	}
	return m
}

// ---- contract lookup

func (v *Verifier) typesPkg(path string) *types.Package {
	for _, p := range v.P.Pkgs {
		if p.PkgPath == path {
			return p.Types
		}
	}
	for _, p := range v.P.Prog.AllPackages() {
		if p.Pkg.Path() == path {
			return p.Pkg
		}
	}
	return nil
}

func (v *Verifier) contractFor(org *ssa.Function) (*Contract, *types.Package) {
	if c, ok := v.fnContracts[org]; ok {
		return c, v.typesPkg(c.Pkg)
	}
	if c, ok := v.C.Externs[org.String()]; ok {
		var pk *types.Package
		if org.Pkg != nil {
			pk = org.Pkg.Pkg
		}
		return c, pk
	}
	return nil, nil
}

func (v *Verifier) ifaceContract(it types.Type, method string) (*Contract, *types.Package) {
	n, ok := types.Unalias(it).(*types.Named)
	if !ok {
		return nil, nil
	}
	if n.Obj().Pkg() == nil {
		// error.Error etc.
		if c, ok := v.C.Ifaces["::"+n.Obj().Name()+"."+method]; ok {
			return c, nil
		}
		return nil, nil
	}
	key := n.Obj().Pkg().Path() + "::" + n.Obj().Name() + "." + method
	if c, ok := v.C.Ifaces[key]; ok {
		return c, n.Obj().Pkg()
	}
	return nil, nil
}

func (v *Verifier) funcTypeContract(sig *types.Signature) (*Contract, *types.Package) {
	for _, c := range v.C.FuncTypes {
		pk := v.typesPkg(c.Pkg)
		if pk == nil {
			continue
		}
		if strings.Contains(c.Name, ".") {
			continue // field-keyed contract
		}
		obj := pk.Scope().Lookup(c.Name)
		if obj == nil {
			continue
		}
		if s2, ok := obj.Type().Underlying().(*types.Signature); ok {
			if types.Identical(stripRecv(sig), s2) {
				return c, pk
			}
		}
	}
	return nil, nil
}

// fieldFuncContract: a call through a func-typed struct field (x.f(...)) may have a contract keyed by the field,
// written as `functype Struct.field(self, params...)` (used for generic callback fields).
func (v *Verifier) fieldFuncContract(c *ssa.CallCommon) (*Contract, *types.Package) {
	ld, ok := c.Value.(*ssa.UnOp)
	if !ok {
		return nil, nil
	}
	fa, ok := ld.X.(*ssa.FieldAddr)
	if !ok {
		return nil, nil
	}
	pt, ok := fa.X.Type().Underlying().(*types.Pointer)
	if !ok {
		return nil, nil
	}
	n, ok := types.Unalias(pt.Elem()).(*types.Named)
	if !ok {
		return nil, nil
	}
	st, ok := n.Underlying().(*types.Struct)
	if !ok {
		return nil, nil
	}
	key := n.Obj().Name() + "." + st.Field(fa.Field).Name()
	for _, ct := range v.C.FuncTypes {
		if ct.Name == key {
			return ct, v.typesPkg(ct.Pkg)
		}
	}
	return nil, nil
}

func stripRecv(s *types.Signature) *types.Signature {
	if s.Recv() == nil {
		return s
	}
	return types.NewSignatureType(nil, nil, nil, s.Params(), s.Results(), s.Variadic())
}

// ---- contract application

func (v *Verifier) applyContract(st *State, con *Contract, cpkg *types.Package, fn *ssa.Function, sig *types.Signature, args []*Term, argTys []types.Type, bindings []*Term, in ssa.Instruction, what string) []*Term {
	return v.applyContractS(st, con, cpkg, fn, sig, args, argTys, bindings, in, what, nil)
}

func (v *Verifier) contractEnv(st *State, con *Contract, cpkg *types.Package, fn *ssa.Function, args []*Term, argTys []types.Type, bindings []*Term) *Env {
	env := &Env{v: v, st: st, vars: map[string]Val{}, pkg: cpkg}
	for i, p := range con.Params {
		if i < len(args) {
			var ty types.Type
			if fn != nil && i < len(fn.Params) {
				ty = fn.Params[i].Type()
				// an uninstantiated type parameter of a generic extern: the argument's static type is the better description
				if _, isTP := types.Unalias(v.substT(ty)).(*types.TypeParam); isTP && i < len(argTys) && argTys[i] != nil && v.sortOf(ty) != args[i].Sort {
					ty = argTys[i]
				} else if _, rawTP := types.Unalias(ty).(*types.TypeParam); rawTP {
					ty = v.substT(ty)
				}
			} else if i < len(argTys) {
				ty = argTys[i]
			}
			env.vars[p] = Val{args[i], ty}
		}
	}
	if fn != nil {
		for i, fv := range fn.FreeVars {
			if i < len(bindings) {
				// free vars are captured by reference: binding is a pointer to the variable; expose both
				env.vars["&"+fv.Name()] = Val{bindings[i], fv.Type()}
				if pt, ok := fv.Type().Underlying().(*types.Pointer); ok {
					_ = pt
				}
				env.vars[fv.Name()] = Val{bindings[i], fv.Type()}
			}
		}
		env.frame = &Frame{fn: fn}
	}
	return env
}

func (v *Verifier) applyContractS(st *State, con *Contract, cpkg *types.Package, fn *ssa.Function, sig *types.Signature, args []*Term, argTys []types.Type, bindings []*Term, in ssa.Instruction, what string, calleeSubst map[string]types.Type) []*Term {
	savedSubst := v.subst
	if calleeSubst != nil {
		v.subst = calleeSubst
	}
	defer func() { v.subst = savedSubst }()
	env := v.contractEnv(st, con, cpkg, fn, args, argTys, bindings)
	// deref free variables captured by reference: contract names denote the variable's value
	if fn != nil {
		for i, fv := range fn.FreeVars {
			if i < len(bindings) {
				if pt, ok := fv.Type().Underlying().(*types.Pointer); ok {
					env.vars[fv.Name()] = Val{v.load(st, bindings[i], pt.Elem()), pt.Elem()}
				}
			}
		}
	}
	// preconditions
	for _, rq := range con.Requires {
		penv := *env
		penv.mode = 2
		if v.col != nil {
			penv.mode = 0
		}
		g, err := penv.evalBool(rq.Expr)
		if err != nil {
			v.errorf("requires %s of %s: %v", rq.Label, what, err)
			g = tFalse
		}
		v.callSeq[what]++
		v.emit(st, "pre@"+sanitizeKey(what), rq.Label, rq.Tags, g, rq.Src, posOf(in.Parent(), in.Pos()))
		st.assume(g)
	}
	old := st.snapshot()
	// modifies
	if !con.HasModifies {
		v.note("contract without modifies clause (heap havocked): " + what)
		v.havocAll(st, "nomod")
	} else {
		// all locations are evaluated in the pre-state, then forgotten
		var all []modLoc
		for _, m := range con.Modifies {
			locs, err := env.evalLocs(m)
			if err != nil {
				v.errorf("modifies of %s: %v", what, err)
				v.havocAll(st, "moderr")
				continue
			}
			all = append(all, locs...)
		}
		for _, l := range all {
			v.havocLoc(st, l, in)
		}
	}
	// results
	var rs []*Term
	for i := 0; i < sig.Results().Len(); i++ {
		ty := sig.Results().At(i).Type()
		if i == 0 && con.FreshResult {
			rs = append(rs, v.alloc())
			continue
		}
		r := v.Y.fresh(v.D, "r_"+lastSeg(what), v.sortOf(ty))
		v.addTypeFacts(st, r, ty)
		rs = append(rs, r)
	}
	env2 := *env
	env2.st = st
	env2.old = old
	env2.vars = map[string]Val{}
	for k, x := range env.vars {
		env2.vars[k] = x
	}
	for i, r := range rs {
		ty := sig.Results().At(i).Type()
		env2.vars[fmt.Sprintf("result%d", i)] = Val{r, ty}
		if i == 0 {
			env2.vars["result"] = Val{r, ty}
		}
		if i < len(con.Results) {
			env2.vars[con.Results[i]] = Val{r, ty}
		}
	}
	for _, gu := range con.GhostUpd {
		v.ghostUpdate(st, &env2, gu, what)
	}
	env2.mode = 1
	for _, en := range append(append([]*Clause{}, con.Ensures...), con.Names...) {
		g, err := env2.evalBool(en.Expr)
		if err != nil {
			v.errorf("ensures %s of %s: %v", en.Label, what, err)
			continue
		}
		st.assume(g)
	}
	// postconditions of the interface contracts this function is proved to implement (impl obligations)
	for _, impl := range con.Implements {
		ic := v.lookupImplTarget(con, impl)
		if ic == nil || ic.Kind != "iface" || fn == nil || len(args) == 0 {
			continue
		}
		ienv := &Env{v: v, st: st, old: old, vars: map[string]Val{}, pkg: v.typesPkg(ic.Pkg), frame: env.frame, mode: 1}
		ienv.vars[ic.Params[0]] = Val{v.box(st, args[0], fn.Params[0].Type()), types.NewInterfaceType(nil, nil)}
		for i := 1; i < len(ic.Params) && i < len(args); i++ {
			ienv.vars[ic.Params[i]] = Val{args[i], fn.Params[i].Type()}
		}
		for i, r := range rs {
			ienv.vars[fmt.Sprintf("result%d", i)] = Val{r, sig.Results().At(i).Type()}
			if i == 0 {
				ienv.vars["result"] = Val{r, sig.Results().At(i).Type()}
			}
		}
		for _, gu := range ic.GhostUpd {
			v.ghostUpdate(st, ienv, gu, what)
		}
		for _, en := range ic.Ensures {
			g, err := ienv.evalBool(en.Expr)
			if err != nil {
				v.errorf("ensures %s of %s (via %s): %v", en.Label, what, impl, err)
				continue
			}
			st.assume(g)
		}
	}
	return rs
}

func lastSeg(s string) string {
	if i := strings.LastIndexAny(s, ". "); i >= 0 {
		s = s[i+1:]
	}
	return sanitize(s)
}

func sanitizeKey(s string) string {
	s = strings.ReplaceAll(s, " ", "_")
	return s
}

func (v *Verifier) ghostVar(st *State, name, sort string) *Term {
	if t, ok := st.ghost[name]; ok {
		return t
	}
	n := "zz_g0_" + sanitize(name)
	v.D.declConst(n, sort)
	t := mk(sort, n)
	st.ghost[name] = t
	return t
}

func (v *Verifier) ghostUpdate(st *State, env *Env, gu *GhostUpdate, what string) {
	venv := *env
	if env.old != nil {
		venv.st = env.old
	}
	val, err := venv.eval(gu.Value)
	if err != nil {
		v.errorf("ghost_update of %s: %v", what, err)
		return
	}
	locs, err := env.evalLocs(gu.Target)
	if err != nil || len(locs) != 1 {
		v.errorf("ghost_update target of %s: %v", what, err)
		return
	}
	l := locs[0]
	switch l.kind {
	case "ghostvar":
		st.ghost[l.gname] = val.T
		if v.col != nil {
			st.colW = append(st.colW, wrec{key: "GHOST:" + l.gname})
		}
	case "exact":
		h := st.heap[l.key]
		h.write(l.addr, val.T)
		v.recordWrite(st, l.key, l.addr)
	}
}

// checkCaptures emits, at a MakeClosure site, the obligations that the closure's `captures` clauses hold.
func (v *Verifier) checkCaptures(st *State, fn *ssa.Function, bindings []*Term, in ssa.Instruction) {
	con, cpkg := v.contractFor(originOf(fn))
	if con == nil || len(con.Captures) == 0 {
		return
	}
	env := &Env{v: v, st: st, vars: map[string]Val{}, pkg: cpkg, frame: &Frame{fn: fn}}
	for i, fv := range fn.FreeVars {
		if i < len(bindings) {
			if pt, ok := fv.Type().Underlying().(*types.Pointer); ok {
				env.vars[fv.Name()] = Val{v.load(st, bindings[i], pt.Elem()), pt.Elem()}
			}
		}
	}
	for _, cl := range con.Captures {
		g, err := env.evalBool(cl.Expr)
		if err != nil {
			v.errorf("captures %s: %v", cl.Label, err)
			g = tFalse
		}
		v.emit(st, "pre@make_"+fnKey(originOf(fn)), cl.Label, cl.Tags, g, cl.Src, posOf(in.Parent(), in.Pos()))
	}
}

func (v *Verifier) havocLoc(st *State, l modLoc, in ssa.Instruction) {
	switch l.kind {
	case "heap":
		v.frameViolation(st, in, "callee modifies the whole heap")
		v.havocAll(st, "mod")
	case "ghostvar":
		s := v.C.GhostVars[l.gname]
		st.ghost[l.gname] = v.Y.fresh(v.D, "g_"+l.gname, s)
		if v.col != nil {
			st.colW = append(st.colW, wrec{key: "GHOST:" + l.gname})
		}
	case "exact":
		h := st.heap[l.key]
		if h == nil {
			h = v.heapFor(st, l.sort)
		}
		v.frameGuard = l.guard
		v.frameCheckLoc(st, l.key, l.addr, in)
		v.frameGuard = nil
		f := v.Y.fresh(v.D, "hv", l.sort)
		if l.typ != nil {
			v.addTypeFacts(st, f, l.typ)
		}
		if l.guard != nil {
			if l.guard.Op == "false" {
				return
			}
			f = tIte(l.guard, f, h.read(l.addr))
		}
		h.write(l.addr, f)
		v.recordWrite(st, l.key, l.addr)
	case "anyfield":
		v.frameCheckRegion(st, l, in)
		h := st.heap[l.key]
		if h == nil {
			h = v.heapFor(st, l.sort)
		}
		oldArr := h.arrayTerm()
		nb := v.Y.fresh(v.D, "hfld", h.arraySort())
		p := mk("Ptr", "zz_qp")
		sel := mk(h.ElSort, "select", nb, p)
		in := tAnd(mk("Bool", "(_ is zz_fld)", p), tEq(mk("Int", "zz_fld_idx", p), l.addr))
		if l.guard != nil {
			if l.guard.Op == "false" {
				return
			}
			// when(c, anyfield(...)): nothing changes unless c holds
			in = tAnd(l.guard, in)
		}
		guarded := l.guard != nil && l.guard.Op != "true"
		st.assume(mk("Bool", "forall ((zz_qp Ptr))", withPattern(tImp(tNot(in), tEq(sel, mk(h.ElSort, "select", oldArr, p))), sel)))
		fid := l.addr
		h.regionHavoc(nb, func(a *Term) int {
			if a.Op == "zz_fld" {
				if termEq(a.Args[1], fid) {
					if guarded {
						return -1
					}
					return 1
				}
				if d, ok := provablyDistinct(a.Args[1], fid); ok && d {
					return 0
				}
				return -1
			}
			if isCtor(a) {
				return 0
			}
			return -1
		})
		if v.col != nil {
			st.colW = append(st.colW, wrec{l.key, mk("Ptr", "zz_fld", v.Y.fresh(v.D, "anyobj", "Ptr"), l.addr)})
		}
	case "under", "userdata":
		v.frameCheckRegion(st, l, in)
		for _, k := range sortedKeys(st.heap) {
			v.applyGlobalHavoc(st, st.heap[k], l)
		}
		st.globalHavocs = append(st.globalHavocs, l)
		if v.col != nil {
			st.colW = append(st.colW, wrec{key: "GLOBAL:" + l.kind, addr: l.base})
		}
	case "anyinternal":
		v.frameCheckRegion(st, l, in)
		h := st.heap[l.key]
		if h == nil {
			h = v.heapFor(st, l.sort)
		}
		oldArr := h.arrayTerm()
		nb := v.Y.fresh(v.D, "hint", h.arraySort())
		p := mk("Ptr", "zz_qp")
		sel := mk(h.ElSort, "select", nb, p)
		st.assume(mk("Bool", "forall ((zz_qp Ptr))", withPattern(tImp(tNot(v.internalField(p, "")), tEq(sel, mk(h.ElSort, "select", oldArr, p))), sel)))
		key := l.key
		h.regionHavoc(nb, func(a *Term) int {
			f := v.internalField(a, "")
			if f.Op == "true" {
				return 1
			}
			if f.Op == "false" {
				return 0
			}
			_ = key
			return -1
		})
		if v.col != nil {
			st.colW = append(st.colW, wrec{key: "INTERNAL:" + l.key})
		}
	case "anyelems":
		v.frameCheckRegion(st, l, in)
		h := st.heap[l.key]
		if h == nil {
			h = v.heapFor(st, l.sort)
		}
		oldArr := h.arrayTerm()
		nb := v.Y.fresh(v.D, "hany", h.arraySort())
		p := mk("Ptr", "zz_qp")
		sel := mk(h.ElSort, "select", nb, p)
		st.assume(mk("Bool", "forall ((zz_qp Ptr))", withPattern(tImp(tNot(mk("Bool", "(_ is zz_elem)", p)), tEq(sel, mk(h.ElSort, "select", oldArr, p))), sel)))
		h.regionHavoc(nb, func(a *Term) int {
			if a.Op == "zz_elem" {
				return 1
			}
			if isCtor(a) {
				return 0
			}
			return -1
		})
		if v.col != nil {
			st.colW = append(st.colW, wrec{l.key, pElem(v.Y.fresh(v.D, "anybase", "Ptr"), v.Y.fresh(v.D, "anyidx", "Int"))})
		}
	case "elems":
		h := st.heap[l.key]
		if h == nil {
			h = v.heapFor(st, l.sort)
		}
		v.frameCheckLoc(st, l.key, pElem(l.base, intLit(0)), in)
		v.havocRegion(st, h, l.base)
		if v.col != nil {
			st.colW = append(st.colW, wrec{l.key, pElem(l.base, v.Y.fresh(v.D, "anyidx", "Int"))})
		}
	case "key":
		h := st.heap[l.key]
		if h == nil {
			if strings.HasPrefix(l.key, "map") {
				h = v.customHeap(st, l.key, "Ptr", l.sort)
			} else {
				h = v.heapFor(st, l.sort)
			}
		}
		v.frameCheckRegion(st, l, in)
		h.regionHavoc(v.Y.fresh(v.D, "hk", h.arraySort()), predAll)
		if v.col != nil {
			st.colW = append(st.colW, wrec{key: "ALLKEY:" + l.key})
		}
	}
}

// havocRegion forgets every location of heap component h that lies inside the backing array `base`
// (elements and their fields), keeping everything else (quantified frame axiom).
func (v *Verifier) havocRegion(st *State, h *HeapArr, base *Term) {
	oldArr := h.arrayTerm()
	nb := v.Y.fresh(v.D, "hreg", h.arraySort())
	p := mk("Ptr", "zz_qp")
	in := inBackingArray(p, base)
	sel := mk(h.ElSort, "select", nb, p)
	st.assume(mk("Bool", "forall ((zz_qp Ptr))", withPattern(tImp(tNot(in), tEq(sel, mk(h.ElSort, "select", oldArr, p))), sel)))
	h.regionHavoc(nb, func(a *Term) int {
		q := a
		for q.Op == "zz_fld" {
			q = q.Args[0]
		}
		if q.Op == "zz_elem" {
			if termEq(q.Args[0], base) {
				return 1
			}
			if d, ok := provablyDistinct(q.Args[0], base); ok && d {
				return 0
			}
			return -1
		}
		if isCtor(q) {
			return 0
		}
		return -1
	})
}

func withPattern(body *Term, pats ...*Term) *Term {
	args := []*Term{body}
	for _, p := range pats {
		args = append(args, mk("", ":pattern ("+p.String()+")"))
	}
	return mk("Bool", "!", args...)
}

// inBackingArray(p, base): p is elem(base, _) or a field path (depth<=2) below such an element.
func inBackingArray(p, base *Term) *Term {
	isElemOf := func(q *Term) *Term {
		return tAnd(mk("Bool", "(_ is zz_elem)", q), tEq(mk("Ptr", "zz_elem_base", q), base))
	}
	f1 := mk("Ptr", "zz_fld_base", p)
	f2 := mk("Ptr", "zz_fld_base", f1)
	return tOr(isElemOf(p),
		tAnd(mk("Bool", "(_ is zz_fld)", p), isElemOf(f1)),
		tAnd(mk("Bool", "(_ is zz_fld)", p), mk("Bool", "(_ is zz_fld)", f1), isElemOf(f2)))
}

// ---- frame checking (writes must stay inside the verified function's modifies clause)

func (v *Verifier) frameViolation(st *State, in ssa.Instruction, why string) {
	if in == nil {
		return
	}
	if !v.frameOn || v.col != nil || v.curCon == nil || !v.curCon.HasModifies {
		return
	}
	v.emit(st, "frame", "write@"+posOf(in.Parent(), in.Pos()), []string{"C08", "C19", "C17"}, tFalse, why, posOf(in.Parent(), in.Pos()))
}

// frameCheckRegion: a callee's region-shaped modifies item must be covered by an item of the same shape
// (or a larger one) in the verified function's own modifies clause.
func (v *Verifier) frameCheckRegion(st *State, l modLoc, in ssa.Instruction) {
	if !v.frameOn || v.col != nil || v.curCon == nil || !v.curCon.HasModifies || in == nil {
		return
	}
	for _, m := range v.modset {
		if m.kind == "heap" {
			return
		}
		if m.kind == "key" && m.key == l.key {
			return
		}
		if m.kind != l.kind {
			continue
		}
		switch l.kind {
		case "anyelems", "anyinternal":
			if m.key == l.key {
				return
			}
		case "anyfield":
			if m.key == l.key && termEq(m.addr, l.addr) {
				return
			}
		case "userdata":
			return
		case "under":
			if termEq(m.base, l.base) {
				return
			}
		case "key":
			if m.key == l.key {
				return
			}
		}
		if m.kind == "userdata" && l.kind == "under" {
			return
		}
	}
	v.emit(st, "frame", "region:"+l.kind+":"+l.key+"@"+fnKey(originOf(in.Parent())), []string{"C08", "C19", "C17"}, tFalse, "callee modifies region "+l.kind+" "+l.key+" which is not in this function's modifies clause", posOf(in.Parent(), in.Pos()))
}

func (v *Verifier) frameCheck(st *State, addr *Term, t types.Type, in ssa.Instruction) {
	if !v.frameOn || v.col != nil || v.curCon == nil || !v.curCon.HasModifies {
		return
	}
	for _, l := range v.leaves(addr, t) {
		v.frameCheckLoc(st, heapKeyForSort(l.sort), l.addr, in)
	}
}

func (v *Verifier) frameCheckKey(st *State, key string, addr *Term, in ssa.Instruction) {
	v.frameCheckLoc(st, key, addr, in)
}

func (v *Verifier) frameCheckLoc(st *State, key string, addr *Term, in ssa.Instruction) {
	if !v.frameOn || v.col != nil || v.curCon == nil || !v.curCon.HasModifies || in == nil {
		return
	}
	if strings.HasPrefix(key, "g_") {
		return
	}
	root := rootOf(addr)
	if root.Op == "zz_new" {
		return
	}
	var alts []*Term
	for _, m := range v.modset {
		switch m.kind {
		case "heap":
			return
		case "key":
			if m.key == key {
				return
			}
		case "anyfield":
			if m.key == key {
				if addr.Op == "zz_fld" && termEq(addr.Args[1], m.addr) {
					return
				}
				alts = append(alts, tAnd(mk("Bool", "(_ is zz_fld)", addr), tEq(mk("Int", "zz_fld_idx", addr), m.addr)))
			}
		case "under":
			alts = append(alts, mk("Bool", "zz_under", addr, m.base))
		case "userdata":
			// a package-level variable is never user data (it is shared by every execution)
			if !strings.HasPrefix(key, "map") && !globReach(addr) {
				alts = append(alts, tNot(v.internalField(addr, key)))
				v.D.declFun("zz_userptr", []string{"Ptr"}, "Bool")
				alts = append(alts, mk("Bool", "zz_userptr", addr))
			}
		case "anyinternal":
			if m.key == key {
				f := v.internalField(addr, "")
				if f.Op == "true" {
					return
				}
				alts = append(alts, f)
			}
		case "anyelems":
			if m.key == key {
				if addr.Op == "zz_elem" {
					return
				}
				alts = append(alts, mk("Bool", "(_ is zz_elem)", addr))
			}
		case "exact":
			if m.key == key {
				e := tEq(addr, m.addr)
				if m.guard != nil {
					e = tAnd(m.guard, e)
				}
				if e.Op == "true" {
					return
				}
				alts = append(alts, e)
			}
		case "elems":
			if m.key == key {
				q := addr
				for q.Op == "zz_fld" {
					q = q.Args[0]
				}
				if q.Op == "zz_elem" {
					e := tEq(q.Args[0], m.base)
					if e.Op == "true" {
						return
					}
					alts = append(alts, e)
				} else {
					alts = append(alts, inBackingArray(addr, m.base))
				}
			}
		}
	}
	alts = append(alts, tFresh(addr))
	where := posOf(in.Parent(), in.Pos())
	goal := tOr(alts...)
	if v.frameGuard != nil {
		goal = tImp(v.frameGuard, goal)
	}
	v.emit(st, "frame", "write:"+key+"@"+fnKey(originOf(in.Parent())), []string{"C08", "C19", "C17"}, goal, "store to "+trimModel(addr.String(), 200)+" must be inside modifies", where)
}

// ---- sync.Pool

func (v *Verifier) poolCall(st *State, tg *callTarget, bind ssa.Value, in ssa.Instruction, full string) {
	recv := tg.args[0]
	var pd *PoolDecl
	if recv.Op == "zz_glob" {
		id, _ := isIntLit(recv.Args[0])
		for name, gid := range v.globIDs {
			if int64(gid) == id {
				i := strings.LastIndex(name, ".")
				pd = v.C.Pools[name[:i]+"::"+name[i+1:]]
			}
		}
	}
	if full == "(*sync.Pool).Get" {
		if pd == nil {
			v.note("sync.Pool.Get on undeclared pool: result arbitrary")
			v.bindResults(st, bind, v.freshResults(st, tg.sig, "pool"))
			return
		}
		pk := v.typesPkg(pd.Pkg)
		env := &Env{v: v, st: st, vars: map[string]Val{}, pkg: pk}
		ty, err := env.resolveType(pd.ElemX)
		if err != nil {
			v.errorf("pool %s: %v", pd.Var, err)
			v.bindResults(st, bind, v.freshResults(st, tg.sig, "pool"))
			return
		}
		// a pooled object: not owned by anybody else; contents arbitrary subject to the pool invariant
		p := v.alloc()
		if pd.Inv != nil {
			env.vars["x"] = Val{p, ty}
			g, err := env.evalBool(pd.Inv.Expr)
			if err != nil {
				v.errorf("pool inv %s: %v", pd.Var, err)
			} else {
				st.assume(g)
			}
		}
		v.bindResults(st, bind, []*Term{v.box(st, p, ty)})
		return
	}
	// Put(x)
	if pd == nil {
		v.note("sync.Pool.Put on undeclared pool")
		return
	}
	pk := v.typesPkg(pd.Pkg)
	env := &Env{v: v, st: st, vars: map[string]Val{}, pkg: pk}
	ty, err := env.resolveType(pd.ElemX)
	if err != nil {
		v.errorf("pool %s: %v", pd.Var, err)
		return
	}
	x := tg.args[1]
	v.emit(st, "pool-put", "type:"+pd.Var, []string{"C07"}, v.dynIs(x, ty), "object put into "+pd.Var+" has the pool's element type", posOf(in.Parent(), in.Pos()))
	if pd.Inv != nil {
		env.vars["x"] = Val{v.unbox(x, ty), ty}
		g, err := env.evalBool(pd.Inv.Expr)
		if err != nil {
			v.errorf("pool inv %s: %v", pd.Var, err)
		} else {
			v.emit(st, "pool-put", "inv:"+pd.Var, append([]string{"C07"}, pd.Inv.Tags...), tImp(v.dynIs(x, ty), g), pd.Inv.Src, posOf(in.Parent(), in.Pos()))
		}
	}
	// ownership: the object is released. Putting one object into its pool twice would let two later Gets hand out
	// the same object to two owners: every Put is checked against the earlier Puts into the same pool on this path.
	ux := v.unbox(x, ty)
	for i, r := range st.released {
		if i < len(st.releasedPool) && st.releasedPool[i] == pd.Var {
			g := tNot(tEq(ux, r))
			if d, ok := provablyDistinct(ux, r); ok && d {
				g = tTrue
			}
			v.emit(st, "pool-put", "once:"+pd.Var, []string{"C07", "C08"}, g, "the object put into "+pd.Var+" was not already put into it on this path (an object is released once)", posOf(in.Parent(), in.Pos()))
		}
	}
	st.released = append(st.released, ux)
	st.releasedPool = append(st.releasedPool, pd.Var)
}

// ---- builtins

func (v *Verifier) mapLen(st *State, m *Term, mt *types.Map) *Term {
	dom, _ := v.mapHeaps(st, mt)
	name := "zz_maplen_" + sortTag(v.sortOf(mt.Key()))
	v.D.declFun(name, []string{dom.ElSort}, "Int")
	d := dom.read(m)
	l := mk("Int", name, d)
	st.assume(tCmp(">=", l, intLit(0)))
	r := tIte(tEq(m, tNilP), intLit(0), l)
	return r
}

func (v *Verifier) builtin(st *State, tg *callTarget, bind ssa.Value, in ssa.Instruction) {
	c := tg.call
	switch tg.builtin {
	case "len", "cap":
		a := tg.args[0]
		var r *Term
		switch a.Sort {
		case "Slice":
			if tg.builtin == "len" {
				r = slLen(a)
			} else {
				r = slCap(a)
			}
		case "String":
			r = mk("Int", "str.len", a)
		case "Ptr":
			if mt, ok := v.substT(c.Args[0].Type()).Underlying().(*types.Map); ok {
				r = v.mapLen(st, a, mt)
			}
		}
		if r == nil {
			if s := v.sortOf(c.Args[0].Type()); strings.HasPrefix(s, "TP_") {
				name := "zz_len_" + sortTag(s)
				v.D.declFun(name, []string{s}, "Int")
				r = mk("Int", name, a)
				st.assume(tCmp(">=", r, intLit(0)))
			} else {
				v.note("abstracted: len of " + a.Sort)
				r = v.Y.fresh(v.D, "len", "Int")
				st.assume(tCmp(">=", r, intLit(0)))
			}
		}
		v.bindResults(st, bind, []*Term{r})
	case "append":
		v.appendBuiltin(st, tg, bind, in)
	case "copy":
		dst, src := tg.args[0], tg.args[1]
		var n *Term
		if src.Sort == "String" {
			sl := mk("Int", "str.len", src)
			n = tIte(tCmp("<", slLen(dst), sl), slLen(dst), sl)
			hI := v.heapFor(st, "Int")
			v.frameCheckLoc(st, hI.Key, pElem(slBase(dst), slOff(dst)), in)
			oldArr := hI.arrayTerm()
			v.havocRegion(st, hI, slBase(dst))
			i := mk("Int", "zz_qi")
			st.assume(mk("Bool", "forall ((zz_qi Int))", tImp(tAnd(tCmp("<=", intLit(0), i), tCmp("<", i, n)),
				tEq(mk("Int", "select", hI.Base, pElem(slBase(dst), tAdd(slOff(dst), i))), mk("Int", "str.to_code", mk("String", "str.at", src, i))))))
			// elements beyond n unchanged
			st.assume(mk("Bool", "forall ((zz_qi Int))", tImp(tOr(tCmp("<", i, slOff(dst)), tCmp(">=", i, tAdd(slOff(dst), n))),
				tEq(mk("Int", "select", hI.Base, pElem(slBase(dst), i)), mk("Int", "select", oldArr, pElem(slBase(dst), i))))))
			if v.col != nil {
				st.colW = append(st.colW, wrec{hI.Key, pElem(slBase(dst), v.Y.fresh(v.D, "anyidx", "Int"))})
			}
		} else {
			n = tIte(tCmp("<", slLen(dst), slLen(src)), slLen(dst), slLen(src))
			v.note("abstracted: copy(slice, slice) contents")
			if sl, ok := v.substT(c.Args[0].Type()).Underlying().(*types.Slice); ok {
				for _, l := range v.leaves(pElem(slBase(dst), intLit(0)), sl.Elem()) {
					h := v.heapFor(st, l.sort)
					v.frameCheckLoc(st, h.Key, pElem(slBase(dst), slOff(dst)), in)
					v.havocRegion(st, h, slBase(dst))
				}
			}
		}
		v.bindResults(st, bind, []*Term{n})
	case "delete":
		m, k := tg.args[0], tg.args[1]
		mt := v.substT(c.Args[0].Type()).Underlying().(*types.Map)
		dom, vals := v.mapHeaps(st, mt)
		v.frameCheckKey(st, dom.Key, m, in)
		dom.write(m, mk(dom.ElSort, "store", dom.read(m), k, tFalse))
		v.recordWrite(st, dom.Key, m)
		_ = vals
	case "print", "println":
	case "recover":
		v.bindResults(st, bind, []*Term{tNilI})
	case "min", "max":
		a, b := tg.args[0], tg.args[1]
		if a.Sort == "Int" {
			if tg.builtin == "min" {
				v.bindResults(st, bind, []*Term{tIte(tCmp("<", a, b), a, b)})
			} else {
				v.bindResults(st, bind, []*Term{tIte(tCmp("<", a, b), b, a)})
			}
			return
		}
		fallthrough
	default:
		v.note("abstracted: builtin " + tg.builtin)
		v.bindResults(st, bind, v.freshResults(st, tg.sig, "bi"))
	}
}

// appendBuiltin models append(s, xs...) with visible backing-array sharing:
// in place when len+n <= cap, otherwise a fresh array with the prefix copied.
func (v *Verifier) appendBuiltin(st *State, tg *callTarget, bind ssa.Value, in ssa.Instruction) {
	s, xs := tg.args[0], tg.args[1]
	c := tg.call
	var elemT types.Type
	if sl, ok := v.substT(c.Args[0].Type()).Underlying().(*types.Slice); ok {
		elemT = sl.Elem()
	}
	if xs.Sort == "String" || elemT == nil {
		v.note("abstracted: append of string / unknown")
		v.bindResults(st, bind, []*Term{v.Y.fresh(v.D, "app", "Slice")})
		return
	}
	n := slLen(xs)
	nlit, nKnown := isIntLit(n)
	newLen := tAdd(slLen(s), n)
	fits := tCmp("<=", newLen, slCap(s))
	if nKnown && nlit == 0 {
		fits = tTrue
	}
	// path A: in place
	doInPlace := func(stA *State) {
		if nKnown && nlit <= 4 {
			for j := int64(0); j < nlit; j++ {
				src := pElem(slBase(xs), tAdd(slOff(xs), intLit(j)))
				dst := pElem(slBase(s), tAdd(slOff(s), tAdd(slLen(s), intLit(j))))
				v.frameCheck(stA, dst, elemT, in)
				v.store(stA, dst, elemT, v.load(stA, src, elemT))
			}
		} else {
			oldArrsA := map[string]*Term{}
			for _, l := range v.leaves(pElem(slBase(s), intLit(0)), elemT) {
				h := v.heapFor(stA, l.sort)
				if _, done := oldArrsA[h.Key]; !done {
					v.frameCheckLoc(stA, h.Key, pElem(slBase(s), slOff(s)), in)
					oldArrsA[h.Key] = h.arrayTerm()
					v.havocRegion(stA, h, slBase(s))
				}
			}
			for _, l := range v.leaves(pElem(slBase(s), intLit(0)), elemT) {
				h := v.heapFor(stA, l.sort)
				oldArr := oldArrsA[h.Key]
				// prefix (and everything outside the appended window) unchanged, window copied
				rel := func(b *Term, idx *Term) *Term { return relocate(l.addr, b, idx) }
				i := mk("Int", "zz_qi")
				lo := tAdd(slOff(s), slLen(s))
				v.assumeQInt(stA, i, tImp(tOr(tCmp("<", i, lo), tCmp(">=", i, tAdd(lo, n))),
					tEq(mk(h.ElSort, "select", h.arrayTerm(), rel(slBase(s), i)), mk(h.ElSort, "select", oldArr, rel(slBase(s), i)))))
				v.assumeQInt(stA, i, tImp(tAnd(tCmp("<=", intLit(0), i), tCmp("<", i, n)),
					tEq(mk(h.ElSort, "select", h.arrayTerm(), rel(slBase(s), tAdd(lo, i))), mk(h.ElSort, "select", oldArr, rel(slBase(xs), tAdd(slOff(xs), i))))))
				if v.col != nil {
					st.colW = append(st.colW, wrec{h.Key, pElem(slBase(s), v.Y.fresh(v.D, "anyidx", "Int"))})
				}
			}
		}
		v.bindResults(stA, bind, []*Term{mkSlice(slBase(s), slOff(s), newLen, slCap(s))})
	}
	// path B: reallocate
	doRealloc := func(stB *State) {
		nb := v.alloc()
		ncap := v.Y.fresh(v.D, "newcap", "Int")
		stB.assume(tCmp(">=", ncap, newLen))
		// one havoc of the fresh region per heap (two leaves of one sort share a heap), then the copy facts per leaf
		oldArrs := map[string]*Term{}
		for _, l := range v.leaves(pElem(nb, intLit(0)), elemT) {
			h := v.heapFor(stB, l.sort)
			if _, done := oldArrs[h.Key]; !done {
				oldArrs[h.Key] = h.arrayTerm()
				v.havocRegion(stB, h, nb)
			}
		}
		for _, l := range v.leaves(pElem(nb, intLit(0)), elemT) {
			h := v.heapFor(stB, l.sort)
			oldArr := oldArrs[h.Key]
			rel := func(b *Term, idx *Term) *Term { return relocate(l.addr, b, idx) }
			i := mk("Int", "zz_qi")
			v.assumeQInt(stB, i, tImp(tAnd(tCmp("<=", intLit(0), i), tCmp("<", i, slLen(s))),
				tEq(mk(h.ElSort, "select", h.arrayTerm(), rel(nb, i)), mk(h.ElSort, "select", oldArr, rel(slBase(s), tAdd(slOff(s), i))))))
			if !(nKnown && nlit <= 4) {
				v.assumeQInt(stB, i, tImp(tAnd(tCmp("<=", intLit(0), i), tCmp("<", i, n)),
					tEq(mk(h.ElSort, "select", h.arrayTerm(), rel(nb, tAdd(slLen(s), i))), mk(h.ElSort, "select", oldArr, rel(slBase(xs), tAdd(slOff(xs), i))))))
			}
		}
		if nKnown && nlit <= 4 {
			for j := int64(0); j < nlit; j++ {
				src := pElem(slBase(xs), tAdd(slOff(xs), intLit(j)))
				dst := pElem(nb, tAdd(slLen(s), intLit(j)))
				v.store(stB, dst, elemT, v.load(stB, src, elemT))
			}
		}
		v.bindResults(stB, bind, []*Term{mkSlice(nb, intLit(0), newLen, ncap)})
	}
	// []string contents as a set: append(s, k) adds k to the set of s, and keeps it duplicate-free exactly when
	// s was and k is new (facts about the abstract functions zz_sset / zz_snodup, true by their definition)
	setFacts := func(stX *State, hOld *Term, k *Term) {
		if !v.setTheory || v.sortOf(elemT) != "String" || !(nKnown && nlit == 1) {
			return
		}
		v.usesSetTheory()
		res := stX.top().vals[bind]
		if res == nil {
			return
		}
		hNew := v.heapFor(stX, "String").arrayTerm()
		oldSet := mk("StrSet", "zz_sset", hOld, s)
		stX.assume(tEq(mk("StrSet", "zz_sset", hNew, res), mk("StrSet", "store", oldSet, k, tTrue)))
		stX.assume(tEq(mk("Bool", "zz_snodup", hNew, res), tAnd(mk("Bool", "zz_snodup", hOld, s), tNot(mk("Bool", "select", oldSet, k)))))
	}
	var hOld0, k0 *Term
	if v.setTheory && v.sortOf(elemT) == "String" && nKnown && nlit == 1 {
		hOld0 = v.heapFor(st, "String").arrayTerm()
		k0 = v.load(st, pElem(slBase(xs), slOff(xs)), elemT)
	}
	if fits.Op == "true" {
		doInPlace(st)
		setFacts(st, hOld0, k0)
		return
	}
	if fits.Op == "false" {
		doRealloc(st)
		setFacts(st, hOld0, k0)
		return
	}
	// fork: continue the realloc path in a clone after the in-place path. Because applyCall must return
	// a single state we fork here and run the clone from the next instruction.
	stB := st.clone()
	stB.assume(tNot(fits))
	doRealloc(stB)
	setFacts(stB, hOld0, k0)
	v.pendingForks = append(v.pendingForks, stB)
	st.assume(fits)
	doInPlace(st)
	setFacts(st, hOld0, k0)
}

// assumeQInt assumes forall i. body (i is the bound variable term occurring in body) and also registers the fact for
// engine-side instantiation at the skolem / index terms of later goals (E-matching fails on offset arithmetic).
func (v *Verifier) assumeQInt(st *State, bound *Term, body *Term) {
	st.assume(mk("Bool", "forall (("+bound.Op+" Int))", body))
	st.qfacts = append(st.qfacts, qfact{sort: "Int", inst: func(idx *Term) *Term { return substTerm(body, bound, idx) }})
}

// globReach: the address is (syntactically) a package-level variable, or lies in an object that was reached by
// loading pointers / slices starting from one. Such memory is shared by every execution, never user data.
func globReach(t *Term) bool {
	for depth := 0; depth < 12; depth++ {
		r := rootOf(t)
		switch {
		case r.Op == "zz_glob":
			return true
		case (r.Op == "zz_sl_base" || strings.HasPrefix(r.Op, "zz_unbox_")) && len(r.Args) == 1:
			t = r.Args[0]
		case r.Op == "select" && len(r.Args) == 2:
			t = r.Args[1]
		default:
			return false
		}
	}
	return false
}

// relocate rewrites a leaf address template (built on elem(base0, 0)) to elem(b, idx)
func relocate(tmpl *Term, b, idx *Term) *Term {
	if tmpl.Op == "zz_elem" {
		return pElem(b, idx)
	}
	if tmpl.Op == "zz_fld" {
		return mk("Ptr", "zz_fld", relocate(tmpl.Args[0], b, idx), tmpl.Args[1])
	}
	return tmpl
}

// ---- loops

func firstNonPhi(b *ssa.BasicBlock) int {
	for i, in := range b.Instrs {
		switch in.(type) {
		case *ssa.Phi, *ssa.DebugRef:
			continue
		}
		return i
	}
	return len(b.Instrs)
}

func (v *Verifier) evalPhis(st *State, h *ssa.BasicBlock, from *ssa.BasicBlock) {
	f := st.top()
	vals := map[*ssa.Phi]*Term{}
	for _, in := range h.Instrs {
		phi, ok := in.(*ssa.Phi)
		if !ok {
			if _, isDbg := in.(*ssa.DebugRef); isDbg {
				continue
			}
			break
		}
		for k, p := range h.Preds {
			if p == from {
				vals[phi] = v.val(st, phi.Edges[k])
			}
		}
	}
	for phi, t := range vals {
		f.vals[phi] = t
		if f.names == nil {
			f.names = map[string]nameRef{}
		}
		if phi.Comment != "" {
			f.names[phi.Comment] = nameRef{val: phi}
		}
	}
}

func (v *Verifier) loopContract(f *Frame, h *ssa.BasicBlock) *LoopContract {
	con, _ := v.contractFor(originOf(f.fn))
	if con == nil && f.fn == v.curTop {
		con = v.curCon
	}
	if con == nil {
		return nil
	}
	// ordinal of this header among loop headers of the function (in block index order)
	ord := 0
	kindOrd := 0
	kind := h.Comment
	for _, b := range f.fn.Blocks {
		if isLoopHeader(b) {
			ord++
			if b.Comment == kind {
				kindOrd++
			}
			if b == h {
				break
			}
		}
	}
	for _, lc := range con.Loops {
		if lc.Key == fmt.Sprintf("#%d", ord) || lc.Key == fmt.Sprintf("%s#%d", kind, kindOrd) {
			return lc
		}
	}
	return nil
}

type writeSet struct {
	globals   []modLoc
	anyelems  map[string]bool
	fields    map[string][]*Term // key -> field ids (any object)
	exact     map[string][]wrec  // key -> addresses
	regions   map[string][]*Term
	allKeys   map[string]bool
	ghosts    map[string]bool
	internals map[string]bool // key -> every module-internal field of that heap
}

func newWriteSet() *writeSet {
	return &writeSet{anyelems: map[string]bool{}, fields: map[string][]*Term{}, exact: map[string][]wrec{}, regions: map[string][]*Term{}, allKeys: map[string]bool{}, ghosts: map[string]bool{}, internals: map[string]bool{}}
}

func (w *writeSet) size() int {
	n := len(w.allKeys) + len(w.ghosts) + len(w.anyelems) + len(w.globals) + len(w.internals)
	for _, x := range w.exact {
		n += len(x)
	}
	for _, x := range w.regions {
		n += len(x)
	}
	for _, x := range w.fields {
		n += len(x)
	}
	return n
}

func (w *writeSet) addExact(key string, addr *Term) {
	for _, e := range w.exact[key] {
		if termEq(e.addr, addr) {
			return
		}
	}
	w.exact[key] = append(w.exact[key], wrec{key, addr})
}

func (w *writeSet) addField(key string, id *Term) {
	for _, b := range w.fields[key] {
		if termEq(b, id) {
			return
		}
	}
	w.fields[key] = append(w.fields[key], id)
}

func (w *writeSet) addRegion(key string, base *Term) {
	for _, b := range w.regions[key] {
		if termEq(b, base) {
			return
		}
	}
	w.regions[key] = append(w.regions[key], base)
}

func (v *Verifier) applyWriteSet(st *State, w *writeSet) {
	if w.allKeys["*"] {
		v.havocAll(st, "loop")
		return
	}
	for _, g := range w.globals {
		v.havocLoc(st, g, nil)
	}
	for _, k := range sortedKeys(w.allKeys) {
		if h, ok := st.heap[k]; ok {
			h.regionHavoc(v.Y.fresh(v.D, "hloop", h.arraySort()), predAll)
		}
	}
	for _, k := range sortedKeys(w.regions) {
		h := st.heap[k]
		if h == nil || w.allKeys[k] {
			continue
		}
		for _, b := range w.regions[k] {
			v.havocRegion(st, h, b)
		}
	}
	for _, k := range sortedKeys(w.anyelems) {
		h := st.heap[k]
		if h == nil || w.allKeys[k] {
			continue
		}
		v.havocLoc(st, modLoc{kind: "anyelems", key: k, sort: h.ElSort}, nil)
	}
	for _, k := range sortedKeys(w.internals) {
		h := st.heap[k]
		if h == nil || w.allKeys[k] {
			continue
		}
		v.havocLoc(st, modLoc{kind: "anyinternal", key: k, sort: h.ElSort}, nil)
	}
	for _, k := range sortedKeys(w.fields) {
		h := st.heap[k]
		if h == nil || w.allKeys[k] {
			continue
		}
		for _, id := range w.fields[k] {
			v.havocLoc(st, modLoc{kind: "anyfield", key: k, sort: h.ElSort, addr: id}, nil)
		}
	}
	for _, k := range sortedKeys(w.exact) {
		h := st.heap[k]
		if h == nil || w.allKeys[k] {
			continue
		}
		for _, e := range w.exact[k] {
			h.write(e.addr, v.Y.fresh(v.D, "lv", h.ElSort))
		}
	}
	for _, g := range sortedKeys(w.ghosts) {
		if t, ok := st.ghost[g]; ok {
			st.ghost[g] = v.Y.fresh(v.D, "lg_"+g, t.Sort)
		} else if s, ok := v.C.GhostVars[g]; ok {
			st.ghost[g] = v.Y.fresh(v.D, "lg_"+g, s)
		}
	}
}

func (v *Verifier) havocLoopLocals(st *State, h *ssa.BasicBlock, blocks map[*ssa.BasicBlock]bool) {
	f := st.top()
	for _, in := range h.Instrs {
		if phi, ok := in.(*ssa.Phi); ok {
			t := v.Y.fresh(v.D, "phi_"+phi.Comment, v.sortOf(phi.Type()))
			v.addTypeFacts(st, t, phi.Type())
			if v.setTheory && (t.Sort == "Slice" || t.Sort == "Ptr") {
				// the objects the body allocates from here on (zz_new ids >= newCtr) stand for allocations of the
				// current iteration: a value carried into the iteration cannot point into one of them
				v.D.add("raw:rootid", `(define-fun-rec zz_rootid ((p Ptr)) Int (ite ((_ is zz_new) p) (zz_new_id p) (ite ((_ is zz_fld) p) (zz_rootid (zz_fld_base p)) (ite ((_ is zz_elem) p) (zz_rootid (zz_elem_base p)) (- 1)))))`)
				pt := t
				if t.Sort == "Slice" {
					pt = slBase(t)
				}
				st.assume(tCmp("<", mk("Int", "zz_rootid", pt), intLit(int64(v.newCtr))))
			}
			if phi.Comment == "rangeindex" {
				// built-in invariant of go/ssa's range-over-slice lowering: the index starts at -1, only increments,
				// and the loop is left as soon as index+1 reaches the bound
				st.assume(tCmp(">=", t, intLit(-1)))
				if ifi, ok := h.Instrs[len(h.Instrs)-1].(*ssa.If); ok {
					if cmp, ok := ifi.Cond.(*ssa.BinOp); ok && cmp.Op == token.LSS {
						if inc, ok := cmp.X.(*ssa.BinOp); ok && inc.X == phi && cmp.Y.Parent() != nil {
							if bnd, ok := f.vals[cmp.Y]; ok {
								st.assume(tImp(tCmp(">=", bnd, intLit(0)), tCmp("<=", tAdd(t, intLit(1)), bnd)))
							}
						}
					}
				}
			}
			f.vals[phi] = t
		}
	}
	for rng, it := range f.iters {
		used := false
		if refs := rng.Referrers(); refs != nil {
			for _, r := range *refs {
				if blocks[r.Block()] {
					used = true
				}
			}
		}
		if used {
			if it.isStr {
				it.pos = v.Y.fresh(v.D, "itpos", "Int")
				st.assume(tCmp(">=", it.pos, intLit(0)))
			} else {
				it.visited = v.Y.fresh(v.D, "visited", it.visited.Sort)
				if it.count != nil {
					it.count = v.Y.fresh(v.D, "itcount", "Int")
					st.assume(tCmp(">=", it.count, intLit(0)))
				}
			}
		}
	}
}

func (v *Verifier) bindLoopVars(st *State, env *Env, h *ssa.BasicBlock) {
	f := st.top()
	for _, it := range f.iters {
		if it.isStr && it.pos != nil {
			env.vars["zz_pos"] = Val{it.pos, types.Typ[types.Int]}
		}
		if !it.isStr && it.count != nil {
			// zz_n: how many keys the range-over-map loop has produced (= completed iterations at the loop head)
			env.vars["zz_n"] = Val{it.count, types.Typ[types.Int]}
		}
	}
	for _, in := range h.Instrs {
		if phi, ok := in.(*ssa.Phi); ok && phi.Comment == "rangeindex" {
			if t, ok := f.vals[phi]; ok {
				env.vars["zz_i"] = Val{tAdd(t, intLit(1)), types.Typ[types.Int]}
			}
		}
	}
	if _, ok := env.vars["zz_i"]; !ok {
		// a loop nested in the body of a range-over-slice loop: zz_i is the enclosing loop's completed iterations
		var outer *ssa.Phi
		n := 0
		for _, b := range h.Parent().Blocks {
			for _, in := range b.Instrs {
				if phi, ok := in.(*ssa.Phi); ok && phi.Comment == "rangeindex" {
					if _, bound := f.vals[phi]; bound && loopBlocks(b)[h] {
						outer = phi
						n++
					}
				}
			}
		}
		if n == 1 {
			env.vars["zz_i"] = Val{tAdd(f.vals[outer], intLit(1)), types.Typ[types.Int]}
		}
	}
}

// useAxioms instantiates named axioms (`use name(args)`) at the given argument terms.
func (v *Verifier) useAxioms(st *State, env *Env, uses []ast.Expr) {
	for _, u := range uses {
		call, ok := u.(*ast.CallExpr)
		if !ok {
			continue
		}
		id, ok := call.Fun.(*ast.Ident)
		if !ok {
			continue
		}
		ax := v.C.Axioms[id.Name]
		if ax == nil || len(ax.Params) != len(call.Args) {
			v.errorf("use %s: unknown axiom or arity", id.Name)
			continue
		}
		body := " " + ax.Body + " "
		okAll := true
		for i, p := range ax.Params {
			pn := strings.Fields(p)[0]
			a, err := env.neutral().eval(call.Args[i])
			if err != nil {
				v.errorf("use %s: %v", id.Name, err)
				okAll = false
				break
			}
			body = replaceWord(body, pn, a.T.String())
		}
		if okAll {
			for _, tok := range strings.FieldsFunc(body, func(r rune) bool { return r == '(' || r == ')' || r == ' ' }) {
				if strings.HasPrefix(tok, "zz_") {
					if sf, ok := v.C.SpecFuns[strings.TrimPrefix(tok, "zz_")]; ok {
						v.D.declFun(tok, sf.Args, sf.Ret)
					}
				}
			}
			v.D.declFun("zz_runeat", []string{"String", "Int"}, "Int")
			v.D.declFun("zz_runenext", []string{"String", "Int"}, "Int")
			st.assume(mk("Bool", strings.TrimSpace(body)))
		}
	}
}

func replaceWord(s, w, by string) string {
	var sb strings.Builder
	i := 0
	for i < len(s) {
		j := strings.Index(s[i:], w)
		if j < 0 {
			sb.WriteString(s[i:])
			break
		}
		j += i
		before := j == 0 || strings.ContainsRune(" ()", rune(s[j-1]))
		after := j+len(w) >= len(s) || strings.ContainsRune(" ()", rune(s[j+len(w)]))
		if before && after {
			sb.WriteString(s[i:j])
			sb.WriteString(by)
		} else {
			sb.WriteString(s[i : j+len(w)])
		}
		i = j + len(w)
	}
	return sb.String()
}

func (v *Verifier) assumeInvariants(st *State, lc *LoopContract, h *ssa.BasicBlock) {
	if lc == nil {
		return
	}
	env := v.topEnv(st)
	env.mode = 1
	v.bindLoopVars(st, env, h)
	v.useAxioms(st, env, lc.Uses)
	for _, inv := range lc.Invariants {
		g, err := env.evalBool(inv.Expr)
		if err != nil {
			v.errorf("invariant %s: %v", inv.Label, err)
			continue
		}
		st.assume(g)
	}
}

func (v *Verifier) checkInvariants(st *State, lc *LoopContract, kind string, h *ssa.BasicBlock) {
	if lc == nil || v.col != nil {
		return
	}
	env := v.topEnv(st)
	env.mode = 2
	v.bindLoopVars(st, env, h)
	v.useAxioms(st, env, lc.Uses)
	for _, inv := range lc.Invariants {
		g, err := env.evalBool(inv.Expr)
		if err != nil {
			v.errorf("invariant %s: %v", inv.Label, err)
			g = tFalse
		}
		v.emit(st, kind, inv.Label, inv.Tags, g, inv.Src, posOf(h.Parent(), h.Instrs[0].Pos()))
	}
}

func (v *Verifier) loopArrive(st *State, from, h *ssa.BasicBlock) {
	f := st.top()
	lc := v.loopContract(f, h)
	if cut, ok := f.loops[h]; ok && cut != nil {
		// back edge
		v.evalPhis(st, h, from)
		if v.col != nil && v.col.header == h && v.col.depth == len(st.frames) {
			// only writes on paths that come back to the loop head matter for the state at the head
			for _, w := range st.colW {
				switch {
				case strings.HasPrefix(w.key, "ALLKEY:"):
					v.col.allKeys[strings.TrimPrefix(w.key, "ALLKEY:")] = true
				case strings.HasPrefix(w.key, "GHOST:"):
					v.col.ghosts[strings.TrimPrefix(w.key, "GHOST:")] = true
				case strings.HasPrefix(w.key, "INTERNAL:"):
					v.col.internals[strings.TrimPrefix(w.key, "INTERNAL:")] = true
				case strings.HasPrefix(w.key, "GLOBAL:"):
					v.col.globals = append(v.col.globals, modLoc{kind: strings.TrimPrefix(w.key, "GLOBAL:"), base: w.addr})
				default:
					v.col.writes = append(v.col.writes, w)
				}
			}
			v.endPath()
			return
		}
		v.checkInvariants(st, lc, "inv-preserve", h)
		v.endPath()
		return
	}
	// first arrival
	v.evalPhis(st, h, from)
	v.checkInvariants(st, lc, "inv-entry", h)
	blocks := loopBlocks(h)
	// fixpoint computation of the loop's write set
	W := newWriteSet()
	if lc != nil && lc.HasMod {
		env := v.topEnv(st)
		for _, m := range lc.Modifies {
			locs, err := env.evalLocs(m)
			if err != nil {
				v.errorf("loop modifies: %v", err)
				continue
			}
			for _, l := range locs {
				switch l.kind {
				case "exact":
					W.addExact(l.key, l.addr)
				case "elems":
					W.addRegion(l.key, l.base)
				case "key":
					W.allKeys[l.key] = true
				case "heap":
					W.allKeys["*"] = true
				case "ghostvar":
					W.ghosts[l.gname] = true
				}
			}
		}
	} else {
		savedCol, savedPath, savedErrs := v.col, v.pathN, len(v.errs)
		for iter := 0; iter < 6; iter++ {
			st2 := st.clone()
			st2.colW = nil
			mark := v.Y.n
			newMark := v.newCtr
			v.applyWriteSet(st2, W)
			v.havocLoopLocals(st2, h, blocks)
			v.assumeInvariants(st2, lc, h)
			col := &collector{header: h, blocks: blocks, depth: len(st2.frames), allKeys: map[string]bool{}, ghosts: map[string]bool{}, internals: map[string]bool{}, symMark: mark, newMark: newMark}
			v.col = col
			st2.top().loops[h] = &loopCut{header: h, blocks: blocks}
			v.pathN = 0
			v.run(st2, h, firstNonPhi(h))
			v.col = savedCol
			before := W.size()
			for k := range col.allKeys {
				W.allKeys[k] = true
			}
			for g := range col.ghosts {
				W.ghosts[g] = true
			}
			for k := range col.internals {
				W.internals[k] = true
			}
			for _, g := range col.globals {
				dup := false
				for _, x := range W.globals {
					if x.kind == g.kind && (x.base == nil || g.base == nil || termEq(x.base, g.base)) {
						dup = true
					}
				}
				if !dup && (g.base == nil || !mentionsAfter(g.base, mark, newMark)) {
					W.globals = append(W.globals, g)
				} else if !dup {
					W.allKeys["*"] = true
				}
			}
			for _, wr := range col.writes {
				root := rootOf(wr.addr)
				if root.Op == "zz_new" {
					if k, ok := isIntLit(root.Args[0]); ok && int(k) >= newMark {
						continue // allocated inside the loop body
					}
				}
				if !mentionsAfter(wr.addr, mark, newMark) {
					W.addExact(wr.key, wr.addr)
					continue
				}
				if wr.addr.Op == "zz_fld" {
					if _, lit := isIntLit(wr.addr.Args[1]); lit && wr.addr.Args[0].Op != "zz_fld" && wr.addr.Args[0].Op != "zz_elem" {
						W.addField(wr.key, wr.addr.Args[1])
						continue
					}
				}
				q := wr.addr
				for q.Op == "zz_fld" {
					q = q.Args[0]
				}
				if q.Op == "zz_elem" && !mentionsAfter(q.Args[0], mark, newMark) {
					W.addRegion(wr.key, q.Args[0])
					continue
				}
				if wr.addr.Op == "zz_elem" {
					W.anyelems[wr.key] = true
					continue
				}
				W.allKeys[wr.key] = true
			}
			if W.size() == before {
				break
			}
		}
		v.pathN = savedPath
		// errors raised while collecting are reported once by the real pass
		v.errs = v.errs[:savedErrs]
		// outer collector (nested loops) must see the inner loop's writes
		if savedCol != nil {
			for k := range W.allKeys {
				st.colW = append(st.colW, wrec{key: "ALLKEY:" + k})
			}
			for g := range W.ghosts {
				st.colW = append(st.colW, wrec{key: "GHOST:" + g})
			}
			for k := range W.internals {
				st.colW = append(st.colW, wrec{key: "INTERNAL:" + k})
			}
			for _, g := range W.globals {
				st.colW = append(st.colW, wrec{key: "GLOBAL:" + g.kind, addr: g.base})
			}
			for _, k := range sortedKeys(W.exact) {
				st.colW = append(st.colW, W.exact[k]...)
			}
			for _, k := range sortedKeys(W.regions) {
				for _, b := range W.regions[k] {
					st.colW = append(st.colW, wrec{k, pElem(b, v.Y.fresh(v.D, "anyidx", "Int"))})
				}
			}
			for _, k := range sortedKeys(W.anyelems) {
				st.colW = append(st.colW, wrec{k, pElem(v.Y.fresh(v.D, "anybase", "Ptr"), v.Y.fresh(v.D, "anyidx", "Int"))})
			}
			for _, k := range sortedKeys(W.fields) {
				for _, id := range W.fields[k] {
					st.colW = append(st.colW, wrec{k, mk("Ptr", "zz_fld", v.Y.fresh(v.D, "anyobj", "Ptr"), id)})
				}
			}
		}
	}
	v.applyWriteSet(st, W)
	v.havocLoopLocals(st, h, blocks)
	v.assumeInvariants(st, lc, h)
	f.loops[h] = &loopCut{header: h, blocks: blocks}
	v.run(st, h, firstNonPhi(h))
}

// ---- top level

func (v *Verifier) topEnv(st *State) *Env {
	f := st.top()
	fn := originOf(f.fn)
	var pk *types.Package
	p := fn
	for p.Parent() != nil {
		p = p.Parent()
	}
	if p.Pkg != nil {
		pk = p.Pkg.Pkg
	}
	env := &Env{v: v, st: st, old: st.entry, vars: map[string]Val{}, pkg: pk, frame: f}
	if len(st.frames) == 1 {
		for k, x := range v.topVars {
			env.vars[k] = x
		}
	} else {
		for _, p := range f.fn.Params {
			if t, ok := f.vals[p]; ok {
				env.vars[p.Name()] = Val{t, p.Type()}
			}
		}
	}
	return env
}

func (v *Verifier) finishPath(st *State, rs []*Term) {
	defer v.endPath()
	if v.col != nil {
		return
	}
	v.returns++
	con := v.curCon
	if con == nil {
		return
	}
	if v.returns <= 6 {
		// vacuity guard: at least one return path of the function must be feasible (checked on the ground part)
		o := &Obligation{Name: v.curFn + "#vacuity:return", Func: v.curFn, Kind: "vacuity", Label: "return", Goal: tFalse, Expect: "sat", D: v.D, Src: "some return path is feasible (assumed callee postconditions are consistent)", PathID: v.pathN}
		o.Assume = append([]*Term(nil), st.pc...)
		v.obls = append(v.obls, o)
	}
	env := v.topEnv(st)
	sig := v.curTop.Signature
	v.curResults = rs
	for i, r := range rs {
		ty := sig.Results().At(i).Type()
		env.vars[fmt.Sprintf("result%d", i)] = Val{r, ty}
		if i == 0 {
			env.vars["result"] = Val{r, ty}
		}
		if i < len(con.Results) {
			env.vars[con.Results[i]] = Val{r, ty}
		}
	}
	v.useAxioms(st, env, con.Uses)
	for _, d := range v.deferredGU {
		e2 := *env
		e2.mode = 0
		if pk := v.typesPkg(d.pkg); pk != nil {
			e2.pkg = pk
		}
		v.ghostUpdate(st, &e2, d.gu, d.name)
	}
	// the function's own ghost updates take effect at return
	for _, gu := range con.GhostUpd {
		e2 := *env
		e2.mode = 0
		v.ghostUpdate(st, &e2, gu, v.curFn)
	}
	env.mode = 2
	for _, en := range con.Ensures {
		if con.TrustedPosts && !strings.HasPrefix(en.Label, "checked_") {
			// trusted_posts: only the postconditions labelled checked_... are proved against the body
			continue
		}
		g, err := env.evalBool(en.Expr)
		if err != nil {
			v.errorf("ensures %s: %v", en.Label, err)
			g = tFalse
		}
		v.emit(st, "post", en.Label, en.Tags, g, en.Src, "")
	}
	for _, d := range con.Defines {
		if len(rs) == 0 {
			continue
		}
		g, err := env.neutral().eval(d.Body)
		if err != nil {
			v.errorf("define %s: %v", d.Name, err)
			continue
		}
		v.emit(st, "post", "define_"+d.Name, []string{"ALL"}, tEq(rs[0], g.T), "result == "+d.Src+" (justifies the meaning of "+d.Name+" on this function value)", "")
	}
	if con.FreshResult && len(rs) > 0 {
		g := tTrue
		if rootOf(rs[0]).Op != "zz_new" {
			g = tFresh(rs[0])
		}
		v.emit(st, "post", "fresh_result", []string{"C07", "C08"}, g, "result is a freshly acquired object (owned by the caller)", "")
	}
	for _, x := range v.extraPosts {
		xenv := *env
		if pk := v.typesPkg(x.Pkg); pk != nil {
			xenv.pkg = pk
		}
		for _, en := range x.Ensures {
			g, err := xenv.evalBool(en.Expr)
			if err != nil {
				v.errorf("impl ensures %s: %v", en.Label, err)
				g = tFalse
			}
			v.emit(st, "impl", x.Name+":"+en.Label, en.Tags, g, en.Src, "")
		}
	}
	// use-after-release: nothing (checked at accesses)
}

type deferredGhost struct {
	gu   *GhostUpdate
	pkg  string
	name string
}

var contractLitRe = regexp.MustCompile(`"([^"\\]*)"`)

func mentionsResult(x ast.Expr) bool {
	found := false
	ast.Inspect(x, func(n ast.Node) bool {
		if id, ok := n.(*ast.Ident); ok && strings.HasPrefix(id.Name, "result") {
			found = true
		}
		return true
	})
	return found
}

// verifyFunc symbolically executes fn against contract con and collects obligations.
func (v *Verifier) verifyFunc(fn *ssa.Function, con *Contract, name string) {
	v.D = newDecls()
	for _, raw := range v.C.RawSMT {
		if strings.HasPrefix(raw, "(declare-sort") || strings.HasPrefix(raw, "(declare-datatypes") {
			v.D.add("raw:"+raw, raw)
		}
	}
	for _, n := range sortedKeys(v.C.SpecFuns) {
		sf := v.C.SpecFuns[n]
		if sf.SrcArgs == nil {
			sf.SrcArgs = append([]string{}, sf.Args...)
			sf.SrcRet = sf.Ret
		}
		var args []string
		for _, a := range sf.SrcArgs {
			args = append(args, v.specSort(a, sf.Pkg))
		}
		sf.Args = args
		sf.Ret = v.specSort(sf.SrcRet, sf.Pkg)
		v.D.declFun("zz_"+sf.Name, sf.Args, sf.Ret)
	}
	for _, raw := range v.C.RawSMT {
		v.D.add("raw:"+raw, raw)
	}
	v.curFn = name
	v.factSeen = map[string]bool{}
	v.curCon = con
	v.contractLits = nil
	{
		seen := map[string]bool{}
		var srcs []string
		for _, cl := range con.Ensures {
			srcs = append(srcs, cl.Src)
		}
		for _, lc := range con.Loops {
			for _, inv := range lc.Invariants {
				srcs = append(srcs, inv.Src)
			}
		}
		for _, src := range srcs {
			if !strings.Contains(src, "visited(") && !strings.Contains(src, "has(") {
				continue
			}
			for _, m := range contractLitRe.FindAllStringSubmatch(src, -1) {
				if !seen[m[1]] && len(seen) < 8 {
					seen[m[1]] = true
					v.contractLits = append(v.contractLits, m[1])
				}
			}
		}
	}
	v.setTheory = false
	for _, lc := range con.Loops {
		for _, inv := range lc.Invariants {
			if strings.Contains(inv.Src, "visitedset(") {
				v.setTheory = true
			}
		}
	}
	v.curTop = fn
	v.newCtr = 0
	v.pathN = 0
	v.returns = 0
	v.pendingForks = nil
	v.subst = nil
	v.extraPosts = nil
	st := &State{heap: map[string]*HeapArr{}, ghost: map[string]*Term{}}
	f := &Frame{fn: fn, vals: map[ssa.Value]*Term{}, tuples: map[ssa.Value][]*Term{}, loops: map[*ssa.BasicBlock]*loopCut{}}
	st.frames = []*Frame{f}
	cpkg := v.typesPkg(con.Pkg)
	v.topVars = map[string]Val{}
	v.curParams = map[string]*Term{}
	v.curResults = nil
	var args []*Term
	for i, p := range fn.Params {
		nm := p.Name()
		if i < len(con.Params) {
			nm = con.Params[i]
		}
		t := mk(v.sortOf(p.Type()), "zz_p_"+sanitize(nm))
		v.D.declConst(t.Op, t.Sort)
		v.addTypeFacts(st, t, p.Type())
		if t.Sort == "Ptr" {
			st.assume(tNotFresh(t))
		}
		f.vals[p] = t
		args = append(args, t)
		v.topVars[nm] = Val{t, p.Type()}
		v.curParams[p.Name()] = t
		if nm != p.Name() {
			v.topVars[p.Name()] = Val{t, p.Type()}
		}
	}
	v.localCells = nil
	for _, fv := range fn.FreeVars {
		t := mk(v.sortOf(fv.Type()), "zz_fv_"+sanitize(fv.Name()))
		if t.Sort == "Ptr" {
			v.localCells = append(v.localCells, t)
		}
		v.D.declConst(t.Op, t.Sort)
		if t.Sort == "Ptr" {
			st.assume(tNotFresh(t))
			st.assume(tNot(tEq(t, tNilP)))
			// a captured variable lives in its own cell: never inside a struct or a backing array
			st.assume(tAnd(tNot(mk("Bool", "(_ is zz_fld)", t)), tNot(mk("Bool", "(_ is zz_elem)", t))))
		}
		f.vals[fv] = t
		// captured variables: the binding is the address of the variable
		if pt, ok := fv.Type().Underlying().(*types.Pointer); ok {
			v.topVars["&"+fv.Name()] = Val{t, fv.Type()}
			_ = pt
		}
	}
	// bind free variables by value for contract expressions (evaluated lazily at entry)
	for _, fv := range fn.FreeVars {
		t := f.vals[fv]
		if pt, ok := fv.Type().Underlying().(*types.Pointer); ok && isCapturedCell(fn, fv) {
			v.topVars[fv.Name()] = Val{v.load(st, t, pt.Elem()), pt.Elem()}
		} else {
			v.topVars[fv.Name()] = Val{t, fv.Type()}
		}
	}
	if len(con.SelfFacts) > 0 {
		senv := &Env{v: v, st: st, vars: map[string]Val{}, pkg: cpkg, frame: f}
		senv.vars["self"] = Val{v.selfClosure(fn, f), fn.Signature}
		for _, sf := range con.SelfFacts {
			if g, err := senv.evalBool(sf.Expr); err == nil {
				st.assume(g)
			} else {
				v.errorf("selffact %s: %v", sf.Label, err)
			}
		}
	}
	stBare := st.clone() // parameters and type facts only: used for the behavioural-subtyping check of `implements`
	env := &Env{v: v, st: st, vars: v.topVars, pkg: cpkg, frame: f, mode: 1}
	for _, rq := range append(append(append([]*Clause{}, con.Requires...), con.Captures...), con.Unfolds...) {
		g, err := env.evalBool(rq.Expr)
		if err != nil {
			v.errorf("requires %s: %v", rq.Label, err)
			continue
		}
		st.assume(g)
	}
	// modifies set at entry
	v.modset = nil
	if con.HasModifies {
		for _, m := range con.Modifies {
			locs, err := env.evalLocs(m)
			if err != nil {
				v.errorf("modifies: %v", err)
				continue
			}
			v.modset = append(v.modset, locs...)
		}
	}
	// interface / functype contracts this function claims to implement
	type guJob struct {
		ic  *Contract
		env *Env
	}
	var pendingGU []guJob
	for _, impl := range con.Implements {
		ic := v.lookupImplTarget(con, impl)
		if ic == nil {
			v.errorf("implements %s: contract not found", impl)
			continue
		}
		ienv := &Env{v: v, st: st, vars: map[string]Val{}, pkg: v.typesPkg(ic.Pkg), frame: f}
		if ic.Kind == "functype" {
			// self is the closure term itself
			ienv.vars[ic.Params[0]] = Val{v.selfClosure(fn, f), fn.Signature}
			for i := 1; i < len(ic.Params); i++ {
				if i-1 < len(args) {
					ienv.vars[ic.Params[i]] = Val{args[i-1], fn.Params[i-1].Type()}
				}
			}
		} else {
			// iface: self is the receiver boxed into the interface
			if len(args) > 0 {
				ienv.vars[ic.Params[0]] = Val{v.box(st, args[0], fn.Params[0].Type()), types.NewInterfaceType(nil, nil)}
			}
			for i := 1; i < len(ic.Params); i++ {
				if i < len(args) {
					ienv.vars[ic.Params[i]] = Val{args[i], fn.Params[i].Type()}
				}
			}
		}
		for _, rq := range ic.Requires {
			g, err := ienv.evalBool(rq.Expr)
			if err != nil {
				v.errorf("implements %s requires %s: %v", impl, rq.Label, err)
				continue
			}
			st.assume(g)
		}
		pendingGU = append(pendingGU, guJob{ic, ienv})
		if ic.Kind == "iface" {
			// behavioural subtyping: the interface's precondition (plus the trusted unfoldings of its abstract
			// predicates for this implementer) must imply the implementer's own precondition
			sb := stBare.clone()
			benv := *ienv
			benv.st = sb
			benv.mode = 1
			benv.vars = map[string]Val{}
			for k, x := range ienv.vars {
				benv.vars[k] = x
			}
			if len(args) > 0 {
				benv.vars[ic.Params[0]] = Val{v.box(sb, args[0], fn.Params[0].Type()), types.NewInterfaceType(nil, nil)}
			}
			for _, rq := range ic.Requires {
				if g, err := benv.evalBool(rq.Expr); err == nil {
					sb.assume(g)
				}
			}
			oenv := &Env{v: v, st: sb, vars: v.topVars, pkg: cpkg, frame: sb.top(), mode: 1}
			for _, uf := range con.Unfolds {
				if g, err := oenv.evalBool(uf.Expr); err == nil {
					sb.assume(g)
				}
			}
			oenv.mode = 2
			for _, rq := range con.Requires {
				g, err := oenv.evalBool(rq.Expr)
				if err != nil {
					g = tFalse
				}
				v.emit(sb, "impl-pre", fs2(impl)+":"+rq.Label, rq.Tags, g, rq.Src+"  (must follow from the precondition of "+impl+")", "")
			}
		}
		// its postconditions become obligations, evaluated with its own parameter names
		cp := *ic
		cp.Name = impl
		v.extraPosts = append(v.extraPosts, &cp)
		for k, x := range ienv.vars {
			if _, clash := v.topVars[k]; !clash {
				v.topVars[k] = x
			}
		}
		if ic.HasModifies {
			for _, m := range ic.Modifies {
				locs, err := ienv.evalLocs(m)
				if err == nil && con.HasModifies {
					_ = locs
				}
			}
		}
	}
	st.entry = st.snapshot()
	st.entry.entry = nil
	// ghost updates of implemented interface contracts happen "on entry" of the implementer
	v.deferredGU = nil
	for _, j := range pendingGU {
		for _, gu := range j.ic.GhostUpd {
			if mentionsResult(gu.Value) {
				// an update that names the result takes effect at return
				v.deferredGU = append(v.deferredGU, deferredGhost{gu: gu, pkg: j.ic.Pkg, name: j.ic.Name})
				continue
			}
			e2 := *j.env
			e2.st = st
			e2.old = st.entry
			v.ghostUpdate(st, &e2, gu, j.ic.Name)
		}
	}
	// vacuity: the assumptions at entry must be satisfiable
	o := &Obligation{Name: name + "#vacuity:pre", Func: name, Kind: "vacuity", Label: "pre", Goal: tFalse, Expect: "sat", D: v.D, Src: "entry assumptions satisfiable"}
	o.Assume = append([]*Term(nil), st.pc...)
	v.obls = append(v.obls, o)
	if len(fn.Blocks) == 0 {
		v.errorf("function has no body")
		return
	}
	v.run(st, fn.Blocks[0], 0)
	for len(v.pendingForks) > 0 {
		// (forks created by append are resumed inside step; nothing left here)
		v.pendingForks = v.pendingForks[:0]
	}
	if v.returns == 0 {
		v.errorf("no path reaches a return")
	}
}

// specSort resolves a sort name used in a specfun signature: an SMT/spec sort name, or a Go type expression.
func (v *Verifier) specSort(name, pkg string) string {
	switch name {
	case "F64":
		return sortF64
	case "F32":
		return sortF32
	}
	if isSpecSort(name) || strings.HasPrefix(name, "(") || v.D.seen["sort:"+name] {
		return name
	}
	for _, raw := range v.C.RawSMT {
		if strings.HasPrefix(raw, "(declare-sort "+name+" ") {
			return name
		}
	}
	if strings.HasPrefix(name, "S_") || strings.HasPrefix(name, "TP_") {
		return name
	}
	x, err := parser.ParseExpr(name)
	if err != nil {
		return name
	}
	env := &Env{v: v, st: &State{heap: map[string]*HeapArr{}, ghost: map[string]*Term{}}, vars: map[string]Val{}, pkg: v.typesPkg(pkg)}
	ty, err := env.resolveType(x)
	if err != nil {
		return name
	}
	return v.D.sortOf(ty)
}

func isCapturedCell(fn *ssa.Function, fv *ssa.FreeVar) bool {
	// In go/ssa every free variable is the address of the captured variable.
	return true
}

func (v *Verifier) selfClosure(fn *ssa.Function, f *Frame) *Term {
	var bs []*Term
	var sorts []string
	for _, fv := range fn.FreeVars {
		bs = append(bs, f.vals[fv])
		sorts = append(sorts, f.vals[fv].Sort)
	}
	name := "zz_clo_" + sanitize(fnKey(originOf(fn))) + "_" + sanitize(shortPkg(fn))
	if len(bs) == 0 {
		return v.fnTermFor(fn)
	}
	v.D.declFun(name, sorts, "Fn")
	v.fnByOp[name] = fn
	return mk("Fn", name, bs...)
}

func (v *Verifier) lookupImplTarget(con *Contract, impl string) *Contract {
	fs := strings.Fields(impl)
	if len(fs) != 2 {
		return nil
	}
	switch fs[0] {
	case "functype":
		for _, c := range v.C.FuncTypes {
			if c.Name == fs[1] {
				return c
			}
		}
	case "iface":
		for k, c := range v.C.Ifaces {
			if strings.HasSuffix(k, "::"+fs[1]) {
				return c
			}
		}
	}
	return nil
}

func fs2(impl string) string {
	fs := strings.Fields(impl)
	if len(fs) == 2 {
		return fs[1]
	}
	return impl
}

func sortStrings(xs []string) []string { sort.Strings(xs); return xs }
