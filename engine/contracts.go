package main

import (
	"bufio"
	"fmt"
	"go/ast"
	"go/parser"
	"os"
	"path/filepath"
	"sort"
	"strconv"
	"strings"
)

type Clause struct {
	Kind  string // requires ensures invariant panics_if assert
	Tags  []string
	Label string
	Src   string
	Expr  ast.Expr
	File  string
	Line  int
}

type LoopContract struct {
	Key        string // "range tests", "#1", ...
	Invariants []*Clause
	Modifies   []ast.Expr
	HasMod     bool
	Uses       []ast.Expr
}

type Define struct {
	Name   string
	Params []string
	Body   ast.Expr
	Src    string
}

type Contract struct {
	Kind         string // func funcvar functype iface extern
	Pkg          string // import path
	Name         string
	Params       []string
	Requires     []*Clause
	Ensures      []*Clause
	PanicsIf     []*Clause
	Captures     []*Clause
	Unfolds      []*Clause
	Names        []*Clause // definitional: result_i == f(self, args) for an otherwise unconstrained spec function f
	SelfFacts    []*Clause // facts about spec functions applied to this function value (self)
	Modifies     []ast.Expr
	HasModifies  bool
	FreshResult  bool
	Pure         bool
	Trusted      bool
	TrustedPosts bool
	NoCalls      []*Clause // nocalls[tags] label: "prefix" - the function itself never calls a function whose full name starts with prefix
	NoBody       bool
	Implements   []string
	Defines      []*Define
	Loops        []*LoopContract
	Uses         []ast.Expr
	GhostUpd     []*GhostUpdate
	File         string
	Line         int
	Results      []string // optional result names
}

type GhostUpdate struct {
	Target ast.Expr
	Value  ast.Expr
	Src    string
}

type SpecMacro struct {
	Name   string
	Params []string
	Body   ast.Expr
	Pkg    string
}

type GhostMap struct {
	Name    string
	IdxType string // Go type name or sort
	ElSort  string
}

type PoolDecl struct {
	Pkg   string
	Var   string
	Elem  string // Go type expr e.g. *ExecCtx
	ElemX ast.Expr
	Inv   *Clause // over variable x
}

type GInv struct {
	Pkg    string
	Clause *Clause
}

type Contracts struct {
	Funcs     map[string]*Contract // pkg::key
	FuncVars  map[string]*Contract // pkg::Var.Field.Field
	FuncTypes []*Contract          // resolved lazily
	Ifaces    map[string]*Contract // pkg::Iface.Method
	Externs   map[string]*Contract // full name
	Macros    map[string]*SpecMacro
	GhostMaps map[string]*GhostMap
	GhostVars map[string]string    // name -> sort
	Pools     map[string]*PoolDecl // pkg::Var
	GInvs     []*GInv
	RawSMT    []string // raw declarations
	SpecFuns  map[string]*SpecFun
	Axioms    map[string]*AxiomDecl
	Errors    []string
}

type SpecFun struct {
	Name    string
	Args    []string
	Ret     string
	SrcArgs []string
	SrcRet  string
	GoType  string // optional Go type of the result (e.g. *ZogIssue), resolved in Pkg
	Pkg     string
}

type AxiomDecl struct {
	Name   string
	Params []string // "name Sort"
	Body   string   // raw smt with params as names
}

func newContracts() *Contracts {
	return &Contracts{Funcs: map[string]*Contract{}, FuncVars: map[string]*Contract{}, Ifaces: map[string]*Contract{}, Externs: map[string]*Contract{},
		Macros: map[string]*SpecMacro{}, GhostMaps: map[string]*GhostMap{}, GhostVars: map[string]string{}, Pools: map[string]*PoolDecl{}, SpecFuns: map[string]*SpecFun{}, Axioms: map[string]*AxiomDecl{}}
}

// rewriteImp rewrites `a ==> b` into zz_imp(a, b) and `a <==> b` into zz_iff(a,b) (textual, paren aware).
func rewriteImp(s string) string {
	// process nested groups first
	var out strings.Builder
	i := 0
	for i < len(s) {
		c := s[i]
		if c == '"' {
			j := i + 1
			for j < len(s) && s[j] != '"' {
				if s[j] == '\\' {
					j++
				}
				j++
			}
			out.WriteString(s[i:min(j+1, len(s))])
			i = j + 1
			continue
		}
		if c == '\'' {
			j := i + 1
			for j < len(s) && s[j] != '\'' {
				if s[j] == '\\' {
					j++
				}
				j++
			}
			out.WriteString(s[i:min(j+1, len(s))])
			i = j + 1
			continue
		}
		if c == '(' || c == '[' {
			closeC := byte(')')
			if c == '[' {
				closeC = ']'
			}
			depth := 1
			j := i + 1
			for j < len(s) && depth > 0 {
				if s[j] == c {
					depth++
				} else if s[j] == closeC {
					depth--
				} else if s[j] == '"' {
					j++
					for j < len(s) && s[j] != '"' {
						if s[j] == '\\' {
							j++
						}
						j++
					}
				}
				j++
			}
			inner := s[i+1 : j-1]
			out.WriteByte(c)
			out.WriteString(rewriteImp(inner))
			out.WriteByte(closeC)
			i = j
			continue
		}
		out.WriteByte(c)
		i++
	}
	flat := out.String()
	// split on top-level commas
	segs := splitTop(flat, ",")
	for k, seg := range segs {
		segs[k] = rewriteSeg(seg)
	}
	return strings.Join(segs, ",")
}

func splitTop(s, sep string) []string {
	var res []string
	depth := 0
	last := 0
	for i := 0; i < len(s); i++ {
		switch s[i] {
		case '(', '[', '{':
			depth++
		case ')', ']', '}':
			depth--
		case '"':
			i++
			for i < len(s) && s[i] != '"' {
				if s[i] == '\\' {
					i++
				}
				i++
			}
		case '\'':
			i++
			for i < len(s) && s[i] != '\'' {
				if s[i] == '\\' {
					i++
				}
				i++
			}
		default:
			if depth == 0 && strings.HasPrefix(s[i:], sep) {
				// make sure "==>" is not matched inside "<==>" when sep is "==>"
				if sep == "==>" && i > 0 && s[i-1] == '<' {
					continue
				}
				res = append(res, s[last:i])
				last = i + len(sep)
				i += len(sep) - 1
			}
		}
	}
	res = append(res, s[last:])
	return res
}

func rewriteSeg(seg string) string {
	parts := splitTop(seg, "<==>")
	if len(parts) > 1 {
		r := rewriteSeg(parts[len(parts)-1])
		for k := len(parts) - 2; k >= 0; k-- {
			r = "zz_iff(" + rewriteSeg(parts[k]) + ", " + r + ")"
		}
		return r
	}
	parts = splitTop(seg, "==>")
	if len(parts) == 1 {
		return seg
	}
	r := parts[len(parts)-1]
	for k := len(parts) - 2; k >= 0; k-- {
		r = "zz_imp(" + parts[k] + ", " + r + ")"
	}
	return r
}

func parseExprSrc(src string) (ast.Expr, error) {
	return parser.ParseExpr(rewriteImp(src))
}

// parseHead parses "name[tags] label: expr" remainder after the keyword.
func parseClause(kind, rest, file string, line int) (*Clause, error) {
	c := &Clause{Kind: kind, File: file, Line: line}
	rest = strings.TrimSpace(rest)
	if strings.HasPrefix(rest, "[") {
		j := strings.Index(rest, "]")
		if j < 0 {
			return nil, fmt.Errorf("unclosed tag list")
		}
		for _, t := range strings.Split(rest[1:j], ",") {
			t = strings.TrimSpace(t)
			if t != "" {
				c.Tags = append(c.Tags, t)
			}
		}
		rest = strings.TrimSpace(rest[j+1:])
	}
	// label: first token followed by ':' (label has no spaces/parens)
	if j := strings.Index(rest, ":"); j > 0 {
		lab := rest[:j]
		if !strings.ContainsAny(lab, " ()=!<>&|.\"'") {
			c.Label = lab
			rest = strings.TrimSpace(rest[j+1:])
		}
	}
	c.Src = rest
	e, err := parseExprSrc(rest)
	if err != nil {
		return nil, fmt.Errorf("parse %q: %v", rest, err)
	}
	c.Expr = e
	if c.Label == "" {
		c.Label = fmt.Sprintf("l%d", line)
	}
	return c, nil
}

func parseNameParams(s string) (string, []string, error) {
	s = strings.TrimSpace(s)
	i := strings.LastIndex(s, "(")
	if i < 0 || !strings.HasSuffix(s, ")") {
		return s, nil, nil
	}
	// careful with names like (*T).M(a, b): last "(" is the param list
	name := strings.TrimSpace(s[:i])
	ps := strings.TrimSpace(s[i+1 : len(s)-1])
	var params []string
	if ps != "" {
		for _, p := range strings.Split(ps, ",") {
			params = append(params, strings.TrimSpace(p))
		}
	}
	return name, params, nil
}

// loadContractFile parses one contract source. If isGo, only lines starting with //@ are considered and
// the package import path is given by pkgPath; otherwise "package <path>" lines switch context.
func (C *Contracts) loadContractFile(path string, pkgPath string, isGo bool) {
	f, err := os.Open(path)
	if err != nil {
		C.Errors = append(C.Errors, err.Error())
		return
	}
	defer f.Close()
	sc := bufio.NewScanner(f)
	sc.Buffer(make([]byte, 1<<20), 1<<20)
	var cur *Contract
	var curLoop *LoopContract
	ln := 0
	var pending string
	pendingLine := 0
	errf := func(format string, a ...any) {
		C.Errors = append(C.Errors, fmt.Sprintf("%s:%d: %s", path, ln, fmt.Sprintf(format, a...)))
	}
	handle := func(line string, ln int) {
		t := strings.TrimSpace(line)
		if t == "" || strings.HasPrefix(t, "--") || strings.HasPrefix(t, "#") {
			return
		}
		kw := t
		rest := ""
		if i := strings.IndexAny(t, " \t["); i > 0 {
			kw = t[:i]
			rest = t[i:]
			if t[i] != '[' {
				rest = strings.TrimSpace(rest)
			}
		}
		switch kw {
		case "package":
			pkgPath = rest
			cur, curLoop = nil, nil
		case "func", "funcvar", "functype", "iface", "extern":
			name, params, _ := parseNameParams(rest)
			cur = &Contract{Kind: kw, Pkg: pkgPath, Name: name, Params: params, File: path, Line: ln}
			curLoop = nil
			switch kw {
			case "func":
				C.Funcs[pkgPath+"::"+name] = cur
			case "funcvar":
				C.FuncVars[pkgPath+"::"+name] = cur
			case "functype":
				C.FuncTypes = append(C.FuncTypes, cur)
			case "iface":
				C.Ifaces[pkgPath+"::"+name] = cur
			case "extern":
				cur.Trusted = true
				C.Externs[name] = cur
			}
		case "requires", "ensures", "invariant", "panics_if", "captures", "unfold", "names", "selffact":
			cl, err := parseClause(kw, rest, path, ln)
			if err != nil {
				errf("%v", err)
				return
			}
			if kw == "invariant" {
				if curLoop == nil {
					errf("invariant outside loop")
					return
				}
				curLoop.Invariants = append(curLoop.Invariants, cl)
				return
			}
			if cur == nil {
				errf("%s outside contract", kw)
				return
			}
			switch kw {
			case "requires":
				cur.Requires = append(cur.Requires, cl)
			case "ensures":
				cur.Ensures = append(cur.Ensures, cl)
			case "panics_if":
				cur.PanicsIf = append(cur.PanicsIf, cl)
			case "captures":
				cur.Captures = append(cur.Captures, cl)
			case "unfold":
				cur.Unfolds = append(cur.Unfolds, cl)
			case "names":
				cur.Names = append(cur.Names, cl)
			case "selffact":
				cur.SelfFacts = append(cur.SelfFacts, cl)
			}
		case "modifies":
			var items []ast.Expr
			if strings.TrimSpace(rest) != "nothing" {
				for _, it := range splitTop(rest, ",") {
					e, err := parseExprSrc(strings.TrimSpace(it))
					if err != nil {
						errf("modifies item %q: %v", it, err)
						continue
					}
					items = append(items, e)
				}
			}
			if curLoop != nil {
				curLoop.Modifies = append(curLoop.Modifies, items...)
				curLoop.HasMod = true
			} else if cur != nil {
				cur.Modifies = append(cur.Modifies, items...)
				cur.HasModifies = true
			}
		case "fresh":
			if cur != nil {
				cur.FreshResult = true
			}
		case "pure":
			if cur != nil {
				cur.Pure = true
				cur.HasModifies = true
			}
		case "trusted":
			if cur != nil {
				cur.Trusted = true
			}
		case "nocalls":
			// nocalls[tags] label: "(reflect.Value).Set"   (a string literal: prefix of the callee's full name)
			if cur != nil {
				cl, err := parseClause(kw, rest, path, ln)
				if err != nil {
					errf("%v", err)
				} else if lit, ok := cl.Expr.(*ast.BasicLit); ok {
					cl.Src, _ = strconv.Unquote(lit.Value)
					cur.NoCalls = append(cur.NoCalls, cl)
				} else {
					errf("nocalls needs a string literal")
				}
			}
		case "trusted_posts":
			// the postconditions are assumed (listed as an assumption); the body is still executed for the
			// zero-annotation safety obligations, frames and callee preconditions
			if cur != nil {
				cur.TrustedPosts = true
			}
		case "results":
			if cur != nil {
				for _, r := range strings.Split(rest, ",") {
					cur.Results = append(cur.Results, strings.TrimSpace(r))
				}
			}
		case "implements":
			if cur != nil {
				cur.Implements = append(cur.Implements, strings.TrimSpace(rest))
			}
		case "use":
			e, err := parseExprSrc(rest)
			if err != nil {
				errf("use: %v", err)
				return
			}
			if curLoop != nil {
				curLoop.Uses = append(curLoop.Uses, e)
			} else if cur != nil {
				cur.Uses = append(cur.Uses, e)
			}
		case "ghost_update":
			// target = value
			parts := splitTop(rest, ":=")
			if len(parts) != 2 {
				errf("ghost_update needs target := value")
				return
			}
			te, err1 := parseExprSrc(strings.TrimSpace(parts[0]))
			ve, err2 := parseExprSrc(strings.TrimSpace(parts[1]))
			if err1 != nil || err2 != nil {
				errf("ghost_update: %v %v", err1, err2)
				return
			}
			if cur != nil {
				cur.GhostUpd = append(cur.GhostUpd, &GhostUpdate{Target: te, Value: ve, Src: rest})
			}
		case "define":
			// define name(params) == expr
			parts := splitTop(rest, "==")
			if len(parts) < 2 {
				errf("define needs ==")
				return
			}
			name, params, _ := parseNameParams(parts[0])
			body := strings.TrimSpace(strings.Join(parts[1:], "=="))
			e, err := parseExprSrc(body)
			if err != nil {
				errf("define: %v", err)
				return
			}
			if cur != nil {
				cur.Defines = append(cur.Defines, &Define{Name: name, Params: params, Body: e, Src: body})
			}
		case "loop":
			if cur == nil {
				errf("loop outside contract")
				return
			}
			curLoop = &LoopContract{Key: strings.TrimSpace(rest)}
			cur.Loops = append(cur.Loops, curLoop)
		case "endloop":
			curLoop = nil
		case "spec":
			// spec name(params) = expr
			i := strings.Index(rest, "=")
			for i >= 0 && i+1 < len(rest) && (rest[i+1] == '=' || (i > 0 && strings.ContainsRune("!<>=", rune(rest[i-1])))) {
				j := strings.Index(rest[i+2:], "=")
				if j < 0 {
					i = -1
					break
				}
				i = i + 2 + j
			}
			if i < 0 {
				errf("spec needs =")
				return
			}
			name, params, _ := parseNameParams(rest[:i])
			e, err := parseExprSrc(strings.TrimSpace(rest[i+1:]))
			if err != nil {
				errf("spec: %v", err)
				return
			}
			C.Macros[name] = &SpecMacro{Name: name, Params: params, Body: e, Pkg: pkgPath}
			cur, curLoop = nil, nil
		case "ghost":
			// ghost L(ZogIssues) Log    |  ghost name Sort
			fs := strings.Fields(rest)
			if len(fs) == 2 && strings.Contains(fs[0], "(") {
				name, params, _ := parseNameParams(fs[0])
				if len(params) != 1 {
					errf("ghost map needs one index")
					return
				}
				C.GhostMaps[name] = &GhostMap{Name: name, IdxType: params[0], ElSort: fs[1]}
			} else if len(fs) == 2 {
				C.GhostVars[fs[0]] = fs[1]
			} else {
				errf("bad ghost decl")
			}
			cur, curLoop = nil, nil
		case "pool":
			// pool Var ElemType [inv: expr]
			fs := strings.SplitN(rest, " ", 3)
			if len(fs) < 2 {
				errf("pool Var Elem")
				return
			}
			pd := &PoolDecl{Pkg: pkgPath, Var: fs[0], Elem: fs[1]}
			ex, err := parser.ParseExpr(fs[1])
			if err != nil {
				errf("pool elem: %v", err)
				return
			}
			pd.ElemX = ex
			if len(fs) == 3 {
				r := strings.TrimSpace(fs[2])
				r = strings.TrimPrefix(r, "inv")
				cl, err := parseClause("poolinv", r, path, ln)
				if err != nil {
					errf("pool inv: %v", err)
					return
				}
				pd.Inv = cl
			}
			C.Pools[pkgPath+"::"+fs[0]] = pd
			cur, curLoop = nil, nil
		case "ginv":
			cl, err := parseClause("ginv", rest, path, ln)
			if err != nil {
				errf("%v", err)
				return
			}
			C.GInvs = append(C.GInvs, &GInv{Pkg: pkgPath, Clause: cl})
			cur, curLoop = nil, nil
		case "smt":
			C.RawSMT = append(C.RawSMT, rest)
		case "specfun":
			// specfun name(Sort, Sort) Ret
			i := strings.LastIndex(rest, ")")
			if i < 0 {
				errf("specfun syntax")
				return
			}
			name, params, _ := parseNameParams(rest[:i+1])
			ret := strings.TrimSpace(rest[i+1:])
			goT := ""
			if j := strings.Index(ret, " as "); j > 0 {
				goT = strings.TrimSpace(ret[j+4:])
				ret = strings.TrimSpace(ret[:j])
			}
			C.SpecFuns[name] = &SpecFun{Name: name, Args: params, Ret: ret, GoType: goT, Pkg: pkgPath}
			cur, curLoop = nil, nil
		case "axiom":
			// axiom name(x Sort, y Sort): raw smt
			i := strings.Index(rest, "):")
			if i < 0 {
				errf("axiom syntax")
				return
			}
			name, params, _ := parseNameParams(rest[:i+1])
			C.Axioms[name] = &AxiomDecl{Name: name, Params: params, Body: strings.TrimSpace(rest[i+2:])}
			cur, curLoop = nil, nil
		default:
			errf("unknown directive %q", kw)
		}
	}
	for sc.Scan() {
		ln++
		line := sc.Text()
		if isGo {
			tl := strings.TrimLeft(line, " \t")
			if !strings.HasPrefix(tl, "//@") {
				continue
			}
			line = strings.TrimPrefix(tl, "//@")
		}
		if strings.HasSuffix(strings.TrimRight(line, " \t"), "\\") {
			l := strings.TrimRight(line, " \t")
			if pending == "" {
				pendingLine = ln
			}
			pending += l[:len(l)-1] + " "
			continue
		}
		if pending != "" {
			handle(pending+strings.TrimSpace(line), pendingLine)
			pending = ""
			continue
		}
		handle(line, ln)
	}
}

// loadAllContracts reads /repo/**/zz_contracts_verif.go and specDir/*.spec
func loadAllContracts(P *Program, specDir string) *Contracts {
	C := newContracts()
	if specDir != "" {
		files, _ := filepath.Glob(filepath.Join(specDir, "*.spec"))
		sort.Strings(files)
		for _, f := range files {
			C.loadContractFile(f, "", false)
		}
	}
	for _, p := range P.Pkgs {
		if len(p.GoFiles) == 0 {
			continue
		}
		dir := filepath.Dir(p.GoFiles[0])
		f := filepath.Join(dir, "zz_contracts_verif.go")
		if _, err := os.Stat(f); err == nil {
			C.loadContractFile(f, p.PkgPath, true)
		}
	}
	return C
}
