package main

import (
	"fmt"
	"go/constant"
	"go/token"
	"go/types"
	"math/big"
	"strings"

	"golang.org/x/tools/go/ssa"
)

type pathEnd struct{}

// ---- values

func (v *Verifier) fnTermFor(fn *ssa.Function) *Term {
	name := "zz_fn_" + sanitize(fn.String())
	v.D.declConst(name, "Fn")
	v.fnByOp[name] = fn
	t := mk("Fn", name)
	if !v.D.seen["fnfacts:"+name] {
		v.D.seen["fnfacts:"+name] = true
		v.D.facts = append(v.D.facts, tNot(tEq(t, tNilF)))
		// function identity (capture-free function literals are plain function values, not MakeClosure results)
		v.D.declFun("zz_cloid", []string{"Fn"}, "Int")
		v.D.facts = append(v.D.facts, tEq(mk("Int", "zz_cloid", t), intLit(int64(cloID(fn)))))
		v.defineAxioms(fn, t)
		v.selfFacts(fn, t, nil)
	}
	return t
}

// selfFacts: `selffact` clauses of fn's contract give spec functions their meaning on fn's function value.
func (v *Verifier) selfFacts(fn *ssa.Function, self *Term, st *State) {
	con, cpkg := v.contractFor(originOf(fn))
	if con == nil || len(con.SelfFacts) == 0 {
		return
	}
	est := st
	if est == nil {
		est = &State{heap: map[string]*HeapArr{}, ghost: map[string]*Term{}}
	}
	env := &Env{v: v, st: est, vars: map[string]Val{"self": {self, fn.Signature}}, pkg: cpkg, frame: &Frame{fn: fn}}
	for _, sf := range con.SelfFacts {
		g, err := env.evalBool(sf.Expr)
		if err != nil {
			v.errorf("selffact %s: %v", sf.Label, err)
			continue
		}
		if st != nil {
			st.assume(g)
		} else {
			v.D.facts = append(v.D.facts, g)
		}
	}
}

// defineAxioms: a contract clause `define f(self, x...) == body` on function F gives the spec function f its
// meaning on the function value of F (justified by the obligation post:define proved on F's body).
func (v *Verifier) defineAxioms(fn *ssa.Function, self *Term) {
	con, cpkg := v.contractFor(originOf(fn))
	if con == nil {
		return
	}
	for _, d := range con.Defines {
		sf := v.C.SpecFuns[d.Name]
		if sf == nil || len(d.Params) != len(sf.Args) {
			continue
		}
		env := &Env{v: v, st: &State{heap: map[string]*HeapArr{}, ghost: map[string]*Term{}}, vars: map[string]Val{}, pkg: cpkg, frame: &Frame{fn: fn}}
		var binders []string
		args := []*Term{self}
		for i := 1; i < len(d.Params); i++ {
			qn := "zz_qd_" + d.Params[i]
			q := mk(sf.Args[i], qn)
			var ty types.Type
			for k, cp := range con.Params {
				if cp == d.Params[i] && k < len(fn.Params) {
					ty = fn.Params[k].Type()
				}
			}
			env.vars[d.Params[i]] = Val{q, ty}
			binders = append(binders, "("+qn+" "+sf.Args[i]+")")
			args = append(args, q)
		}
		body, err := env.eval(d.Body)
		if err != nil {
			v.errorf("define %s: %v", d.Name, err)
			continue
		}
		app := mk(sf.Ret, "zz_"+d.Name, args...)
		v.D.declFun("zz_"+d.Name, sf.Args, sf.Ret)
		ax := tEq(app, body.T)
		if len(binders) > 0 {
			ax = mk("Bool", "forall ("+strings.Join(binders, " ")+")", withPattern(ax, app))
		}
		v.D.facts = append(v.D.facts, ax)
		for _, a := range env.st.pc {
			_ = a
		}
	}
}

func (v *Verifier) constTerm(c *ssa.Const) *Term {
	t := v.substT(c.Type())
	s := v.D.sortOf(t)
	if c.Value == nil {
		return v.D.zero(t)
	}
	if _, ok := types.Unalias(t).(*types.TypeParam); ok && strings.HasPrefix(s, "TP_") {
		// T(c) for a type parameter T: the same uninterpreted conversion a contract's T(c) denotes
		var base *Term
		switch c.Value.Kind() {
		case constant.Bool:
			base = tFalse
			if constant.BoolVal(c.Value) {
				base = tTrue
			}
		case constant.String:
			base = strLit(constant.StringVal(c.Value))
		case constant.Int:
			base = bigLit(c.Value.ExactString())
		}
		if base != nil {
			name := "zz_conv_" + sortTag(base.Sort) + "_to_" + sortTag(s)
			v.D.declFun(name, []string{base.Sort}, s)
			return mk(s, name, base)
		}
	}
	switch c.Value.Kind() {
	case constant.Bool:
		if constant.BoolVal(c.Value) {
			return tTrue
		}
		return tFalse
	case constant.String:
		if s == "String" {
			return strLit(constant.StringVal(c.Value))
		}
	case constant.Int:
		if s == "Int" {
			return bigLit(c.Value.ExactString())
		}
		if s == sortF64 || s == sortF32 {
			return fpFromRat(s, c.Value)
		}
	case constant.Float:
		if s == sortF64 || s == sortF32 {
			return fpFromRat(s, c.Value)
		}
		if s == "Int" {
			if i := constant.ToInt(c.Value); i.Kind() == constant.Int {
				return bigLit(i.ExactString())
			}
		}
	}
	// constant of type-parameter type or unsupported kind
	if _, ok := types.Unalias(t).(*types.TypeParam); ok {
		n := "zz_const_" + sortTag(s) + "_" + sanitize(c.Value.ExactString())
		v.D.declConst(n, s)
		return mk(s, n)
	}
	v.note("abstracted: constant " + c.String())
	return v.Y.fresh(v.D, "const", s)
}

func fpFromRat(sort string, c constant.Value) *Term {
	eb, sb := "11", "53"
	if sort == sortF32 {
		eb, sb = "8", "24"
	}
	r := new(big.Rat)
	switch x := constant.Val(c).(type) {
	case int64:
		r.SetInt64(x)
	case *big.Int:
		r.SetInt(x)
	case *big.Rat:
		r.Set(x)
	case *big.Float:
		x.Rat(r)
	}
	neg := r.Sign() < 0
	if neg {
		r.Neg(r)
	}
	real := fmt.Sprintf("(/ %s.0 %s.0)", r.Num().String(), r.Denom().String())
	if neg {
		real = "(- " + real + ")"
	}
	return mk(sort, fmt.Sprintf("((_ to_fp %s %s) RNE %s)", eb, sb, real))
}

func (v *Verifier) val(st *State, x ssa.Value) *Term {
	switch x := x.(type) {
	case *ssa.Const:
		return v.constTerm(x)
	case *ssa.Global:
		return v.globalPtr(x)
	case *ssa.Function:
		return v.fnTermFor(x)
	}
	f := st.top()
	if t, ok := f.vals[x]; ok {
		return t
	}
	if _, ok := x.(*ssa.Builtin); ok {
		return tNilF
	}
	// unbound (e.g. value from an unexecuted path): havoc
	v.note("abstracted: unbound value " + x.Name())
	t := v.Y.fresh(v.D, "unb", v.sortOf(x.Type()))
	f.vals[x] = t
	return t
}

func (v *Verifier) bind(st *State, x ssa.Value, t *Term) { st.top().vals[x] = t }

// ---- obligations

func (v *Verifier) wantObl(tags []string, kind string) bool {
	if v.col != nil {
		return false
	}
	return true
}

func (v *Verifier) emit(st *State, kind, label string, tags []string, goal *Term, src, where string) {
	if v.col != nil {
		return
	}
	if goal.Op == "true" {
		// trivially discharged syntactically; still count it
	}
	name := fmt.Sprintf("%s#%s:%s", v.curFn, kind, label)
	if label == "" {
		name = fmt.Sprintf("%s#%s", v.curFn, kind)
	}
	o := &Obligation{Name: name, Func: v.curFn, Kind: kind, Label: label, Tags: tags, Goal: goal, Src: src, PathID: v.pathN, Where: where, Expect: "unsat", D: v.D}
	o.Assume = dedupTerms(st.pc)
	o.NDecls = -1
	o.Params = v.curParams
	if kind == "post" || kind == "impl" {
		o.Results = v.curResults
	}
	v.obls = append(v.obls, o)
}

func dedupTerms(ts []*Term) []*Term {
	seen := make(map[string]bool, len(ts))
	out := make([]*Term, 0, len(ts))
	for _, t := range ts {
		k := t.String()
		if seen[k] {
			continue
		}
		seen[k] = true
		out = append(out, t)
	}
	return out
}

func posOf(fn *ssa.Function, p token.Pos) string {
	if !p.IsValid() || fn == nil || fn.Prog == nil {
		return ""
	}
	pp := fn.Prog.Fset.Position(p)
	f := pp.Filename
	if i := strings.LastIndex(f, "/"); i >= 0 {
		f = f[i+1:]
	}
	return fmt.Sprintf("%s:%d", f, pp.Line)
}

// safety obligation helper
func (v *Verifier) safe(st *State, what string, cond *Term, instr ssa.Instruction) {
	if !v.safety || v.col != nil {
		return
	}
	if cond.Op == "true" {
		return
	}
	fn := instr.Parent()
	label := what + "@" + fnKey(originOf(fn))
	v.emit(st, "safety-"+strings.SplitN(what, ":", 2)[0], label, []string{"C06"}, cond, what, posOf(fn, instr.Pos()))
}

func originOf(fn *ssa.Function) *ssa.Function {
	if fn == nil {
		return nil
	}
	if o := fn.Origin(); o != nil {
		return o
	}
	return fn
}

func ptrNonNil(p *Term) *Term {
	switch p.Op {
	case "zz_new", "zz_glob", "zz_fld", "zz_elem":
		return tTrue
	case "zz_nilptr":
		return tFalse
	}
	return tNot(mk("Bool", "=", p, tNilP))
}

// ---- main interpreter loop

func (v *Verifier) endPath() { v.pathN++ }

func isLoopHeader(b *ssa.BasicBlock) bool {
	for _, p := range b.Preds {
		if b.Dominates(p) {
			return true
		}
	}
	return false
}

func loopBlocks(h *ssa.BasicBlock) map[*ssa.BasicBlock]bool {
	set := map[*ssa.BasicBlock]bool{h: true}
	var work []*ssa.BasicBlock
	for _, p := range h.Preds {
		if h.Dominates(p) && !set[p] {
			set[p] = true
			work = append(work, p)
		}
	}
	for len(work) > 0 {
		b := work[len(work)-1]
		work = work[:len(work)-1]
		for _, p := range b.Preds {
			if !set[p] {
				set[p] = true
				work = append(work, p)
			}
		}
	}
	return set
}

// jump transfers control from block `from` to `to` in the top frame.
func (v *Verifier) jump(st *State, from, to *ssa.BasicBlock) {
	f := st.top()
	// collector: leaving the collected loop ends the path
	if v.col != nil && len(st.frames) == v.col.depth && f.fn == v.col.header.Parent() {
		if !v.col.blocks[to] {
			v.endPath()
			return
		}
	}
	f.prev = from
	if isLoopHeader(to) {
		v.loopArrive(st, from, to)
		return
	}
	v.run(st, to, 0)
}

func (v *Verifier) run(st *State, b *ssa.BasicBlock, idx int) {
	if v.pathN > v.maxPaths {
		if v.pathN == v.maxPaths+1 {
			v.errorf("path limit exceeded")
			v.pathN++
		}
		return
	}
	for i := idx; i < len(b.Instrs); i++ {
		in := b.Instrs[i]
		if !v.step(st, b, i, in) {
			return
		}
	}
}

// step executes one instruction; returns false if the path was handed over (branch, call inlined, return...).
func (v *Verifier) step(st *State, b *ssa.BasicBlock, i int, in ssa.Instruction) bool {
	f := st.top()
	v.subst = f.typeArgs
	switch x := in.(type) {
	case *ssa.DebugRef:
		if obj := x.Object(); obj != nil {
			if f.names == nil {
				f.names = map[string]nameRef{}
			}
			f.names[obj.Name()] = nameRef{val: x.X, isAddr: x.IsAddr}
		}
		return true
	case *ssa.Alloc:
		p := v.alloc()
		et := x.Type().Underlying().(*types.Pointer).Elem()
		v.zeroInit(st, p, et)
		v.bind(st, x, p)
		return true
	case *ssa.Store:
		if g, ok := x.Addr.(*ssa.Global); ok && g.Name() == "init$guard" {
			return true // the synthetic once-only guard of a package initialiser
		}
		addr := v.val(st, x.Addr)
		v.safe(st, "nil:store", ptrNonNil(addr), in)
		et := x.Addr.Type().Underlying().(*types.Pointer).Elem()
		v.frameCheck(st, addr, et, in)
		v.store(st, addr, et, v.val(st, x.Val))
		return true
	case *ssa.UnOp:
		if g, ok := x.X.(*ssa.Global); ok && x.Op == token.MUL && g.Name() == "init$guard" {
			v.bind(st, x, tFalse) // a package initialiser is verified for its one real run
			return true
		}
		v.bind(st, x, v.unop(st, x))
		return true
	case *ssa.BinOp:
		v.bind(st, x, v.binop(st, x.Op, v.val(st, x.X), v.val(st, x.Y), x.X.Type(), x))
		return true
	case *ssa.FieldAddr:
		p := v.val(st, x.X)
		v.safe(st, "nil:fieldaddr", ptrNonNil(p), in)
		sn := v.sortOf(x.X.Type().Underlying().(*types.Pointer).Elem())
		v.bind(st, x, v.D.fieldPtr(p, sn, x.Field))
		return true
	case *ssa.Field:
		s := v.val(st, x.X)
		stt := v.substT(x.X.Type()).Underlying().(*types.Struct)
		v.D.sortOf(v.substT(x.X.Type()))
		v.bind(st, x, v.D.structProj(s, stt, x.Field))
		return true
	case *ssa.IndexAddr:
		v.bind(st, x, v.indexAddr(st, x))
		return true
	case *ssa.Index:
		v.bind(st, x, v.indexVal(st, x))
		return true
	case *ssa.Lookup:
		v.lookup(st, x)
		return true
	case *ssa.MapUpdate:
		v.mapUpdate(st, x)
		return true
	case *ssa.MakeMap:
		p := v.alloc()
		mt := v.substT(x.Type()).Underlying().(*types.Map)
		dom, _ := v.mapHeaps(st, mt)
		ks := v.sortOf(mt.Key())
		dom.write(p, mk("(Array "+ks+" Bool)", "((as const (Array "+ks+" Bool)) false)"))
		v.bind(st, x, p)
		return true
	case *ssa.MakeSlice:
		base := v.alloc()
		ln := v.val(st, x.Len)
		cp := v.val(st, x.Cap)
		v.safe(st, "makeslice:len", tAnd(tCmp("<=", intLit(0), ln), tCmp("<=", ln, cp)), in)
		v.bind(st, x, mkSlice(base, intLit(0), ln, cp))
		v.note("assumed: make([]T) elements zero (not modelled, contents unconstrained)")
		return true
	case *ssa.MakeChan:
		v.note("abstracted: make(chan)")
		v.bind(st, x, v.alloc())
		return true
	case *ssa.Slice:
		v.bind(st, x, v.sliceOp(st, x))
		return true
	case *ssa.MakeInterface:
		v.bind(st, x, v.box(st, v.val(st, x.X), x.X.Type()))
		return true
	case *ssa.ChangeInterface:
		v.bind(st, x, v.val(st, x.X))
		return true
	case *ssa.ChangeType:
		t := v.val(st, x.X)
		_, toTP := types.Unalias(v.substT(x.Type())).(*types.TypeParam)
		if _, toIface := v.substT(x.Type()).Underlying().(*types.Interface); toIface && !toTP && t.Sort != "Iface" {
			// conversion of a type-parameter typed value to an interface: boxing
			v.bind(st, x, v.box(st, t, x.X.Type()))
			return true
		}
		if s := v.sortOf(x.Type()); s != t.Sort {
			if _, isStruct := v.substT(x.Type()).Underlying().(*types.Struct); isStruct {
				t = v.convStruct(t, x.X.Type(), x.Type())
			} else {
				t = v.convert(st, t, x.X.Type(), x.Type(), in)
			}
		}
		v.bind(st, x, t)
		return true
	case *ssa.Convert:
		v.bind(st, x, v.convert(st, v.val(st, x.X), x.X.Type(), x.Type(), in))
		return true
	case *ssa.MultiConvert:
		v.bind(st, x, v.convert(st, v.val(st, x.X), x.X.Type(), x.Type(), in))
		return true
	case *ssa.TypeAssert:
		v.typeAssert(st, x)
		return true
	case *ssa.Extract:
		tup := f.tuples[x.Tuple]
		if tup == nil || x.Index >= len(tup) {
			v.note("abstracted: extract from unknown tuple")
			v.bind(st, x, v.Y.fresh(v.D, "ext", v.sortOf(x.Type())))
		} else {
			v.bind(st, x, tup[x.Index])
		}
		return true
	case *ssa.Phi:
		// evaluated by enterPhis
		for k, p := range b.Preds {
			if p == f.prev {
				v.bind(st, x, v.val(st, x.Edges[k]))
				return true
			}
		}
		v.bind(st, x, v.Y.fresh(v.D, "phi", v.sortOf(x.Type())))
		return true
	case *ssa.MakeClosure:
		fn := x.Fn.(*ssa.Function)
		var bs []*Term
		var sorts []string
		for _, bv := range x.Bindings {
			t := v.val(st, bv)
			bs = append(bs, t)
			sorts = append(sorts, t.Sort)
		}
		name := "zz_clo_" + sanitize(fnKey(originOf(fn))) + "_" + sanitize(shortPkg(fn))
		v.D.declFun(name, sorts, "Fn")
		v.fnByOp[name] = fn
		ct := mk("Fn", name, bs...)
		if len(bs) == 0 {
			ct = mk("Fn", name)
		}
		st.assume(tNot(mk("Bool", "=", ct, tNilF)))
		// closure identity: which function it is, and the cells it captured (used by isclo()/captured())
		v.D.declFun("zz_cloid", []string{"Fn"}, "Int")
		st.assume(tEq(mk("Int", "zz_cloid", ct), intLit(int64(cloID(fn)))))
		// ... and, for a literal inside a generic function, the type arguments it was instantiated with (clotarg())
		for i, ta := range closureTypeArgs(fn) {
			cf := fmt.Sprintf("zz_clotarg_%d", i)
			v.D.declFun(cf, []string{"Fn"}, "Int")
			st.assume(tEq(mk("Int", cf, ct), v.D.typeID(v.substT(ta))))
		}
		for i, b := range bs {
			if b.Sort == "Ptr" {
				cf := fmt.Sprintf("zz_capcell_%d", i)
				v.D.declFun(cf, []string{"Fn"}, "Ptr")
				st.assume(tEq(mk("Ptr", cf, ct), b))
			}
		}
		v.selfFacts(fn, ct, st)
		v.checkCaptures(st, fn, bs, in)
		v.bind(st, x, ct)
		return true
	case *ssa.Range:
		v.rangeInit(st, x)
		return true
	case *ssa.Next:
		v.rangeNext(st, x)
		return true
	case *ssa.Defer:
		tg := v.resolveCall(st, &x.Call)
		f.defers = append(f.defers, deferRec{tg: tg})
		return true
	case *ssa.RunDefers:
		if len(f.defers) == 0 {
			return true
		}
		d := f.defers[len(f.defers)-1]
		f.defers = f.defers[:len(f.defers)-1]
		// re-execute this RunDefers after the deferred call
		if v.applyCall(st, d.tg, nil, b, i, in) {
			return v.step(st, b, i, in)
		}
		return false
	case *ssa.Go:
		v.note("abstracted: go statement")
		return true
	case *ssa.Send, *ssa.Select:
		v.note("abstracted: channel operation")
		return true
	case *ssa.Call:
		tg := v.resolveCall(st, &x.Call)
		cont := v.applyCall(st, tg, x, b, i+1, in)
		forks := v.pendingForks
		v.pendingForks = nil
		for _, s2 := range forks {
			saved := v.subst
			v.run(s2, b, i+1)
			v.subst = saved
		}
		return cont
	case *ssa.If:
		c := v.val(st, x.Cond)
		if c.Op == "true" {
			v.jump(st, b, b.Succs[0])
			return false
		}
		if c.Op == "false" {
			v.jump(st, b, b.Succs[1])
			return false
		}
		st2 := st.clone()
		st2.assume(c)
		saved := v.subst
		v.jump(st2, b, b.Succs[0])
		v.subst = saved
		st.assume(tNot(c))
		v.jump(st, b, b.Succs[1])
		return false
	case *ssa.Jump:
		v.jump(st, b, b.Succs[0])
		return false
	case *ssa.Return:
		var rs []*Term
		for _, r := range x.Results {
			rs = append(rs, v.val(st, r))
		}
		v.doReturn(st, rs)
		return false
	case *ssa.Panic:
		v.doPanic(st, x)
		return false
	}
	v.note(fmt.Sprintf("abstracted: instruction %T", in))
	if val, ok := in.(ssa.Value); ok {
		v.bind(st, val, v.Y.fresh(v.D, "unk", v.sortOf(val.Type())))
	}
	return true
}

// cloID is a stable identifier of a function literal (hash of its qualified name)
// closureTypeArgs: the type arguments of the (outermost) generic function a function literal belongs to - the
// instance's arguments, or the type parameters themselves when the origin body is executed.
func closureTypeArgs(fn *ssa.Function) []types.Type {
	root := fn
	for root.Parent() != nil {
		root = root.Parent()
	}
	if ta := root.TypeArgs(); len(ta) > 0 {
		return ta
	}
	var out []types.Type
	if tp := root.TypeParams(); tp != nil {
		for i := 0; i < tp.Len(); i++ {
			out = append(out, tp.At(i))
		}
	}
	return out
}

func cloID(fn *ssa.Function) int {
	name := shortPkg(fn) + "." + fnKey(originOf(fn))
	h := 17
	for _, b := range []byte(name) {
		h = (h*131 + int(b)) % 1000003
	}
	return h + 1
}

func shortPkg(fn *ssa.Function) string {
	o := originOf(fn)
	for o.Parent() != nil {
		o = o.Parent()
	}
	if o.Pkg != nil {
		return o.Pkg.Pkg.Name()
	}
	return ""
}

func (v *Verifier) zeroInit(st *State, p *Term, t types.Type) {
	for _, l := range v.leaves(p, t) {
		h := v.heapFor(st, l.sort)
		h.write(l.addr, v.D.zero(l.typ))
	}
	if _, ok := v.substT(t).Underlying().(*types.Array); ok {
		v.note("assumed: local array zero-initialised (contents unconstrained)")
	}
}

func (v *Verifier) convStruct(t *Term, from, to types.Type) *Term {
	fs, ok1 := v.substT(from).Underlying().(*types.Struct)
	ts, ok2 := v.substT(to).Underlying().(*types.Struct)
	if ok1 && ok2 && fs.NumFields() == ts.NumFields() {
		var fields []*Term
		for i := 0; i < fs.NumFields(); i++ {
			fields = append(fields, v.D.structProj(t, fs, i))
		}
		return v.D.structMake(v.sortOf(to), fields)
	}
	v.note("abstracted: changetype " + typeStr(from) + " -> " + typeStr(to))
	return v.Y.fresh(v.D, "ct", v.sortOf(to))
}

func (v *Verifier) doPanic(st *State, x *ssa.Panic) {
	// allowed if the verified function's contract declares panics_if and it holds here
	if v.col == nil {
		goal := tFalse
		src := "panic"
		if v.curCon != nil && len(v.curCon.PanicsIf) > 0 && st.entry != nil {
			var alts []*Term
			for _, pc := range v.curCon.PanicsIf {
				env := v.topEnv(st)
				t, err := env.evalBool(pc.Expr)
				if err != nil {
					v.errorf("panics_if %s: %v", pc.Label, err)
					continue
				}
				alts = append(alts, t)
				src = "panic allowed if " + pc.Src
			}
			goal = tOr(alts...)
		}
		fn := x.Parent()
		v.emit(st, "safety-panic", "panic@"+fnKey(originOf(fn)), []string{"C06"}, goal, src, posOf(fn, x.Pos()))
	}
	v.endPath()
}

func (v *Verifier) doReturn(st *State, rs []*Term) {
	f := st.top()
	if f.ret == nil {
		v.finishPath(st, rs)
		return
	}
	rp := f.ret
	st.frames = st.frames[:len(st.frames)-1]
	caller := st.top()
	v.subst = caller.typeArgs
	if rp.bind != nil {
		if len(rs) == 1 {
			caller.vals[rp.bind] = rs[0]
		} else if len(rs) > 1 {
			caller.tuples[rp.bind] = rs
		}
	}
	v.run(st, rp.block, rp.idx)
}

// ---- unary / binary

func (v *Verifier) unop(st *State, x *ssa.UnOp) *Term {
	a := v.val(st, x.X)
	switch x.Op {
	case token.MUL:
		v.safe(st, "nil:load", ptrNonNil(a), x)
		et := x.X.Type().Underlying().(*types.Pointer).Elem()
		return v.load(st, a, et)
	case token.NOT:
		return tNot(a)
	case token.SUB:
		if a.Sort == "Int" {
			return v.wrapInt(tSub(intLit(0), a), x.Type())
		}
		if a.Sort == sortF64 || a.Sort == sortF32 {
			return mk(a.Sort, "fp.neg", a)
		}
	case token.ARROW:
		v.note("abstracted: channel receive")
	}
	name := "zz_unop_" + sanitize(x.Op.String()) + "_" + sortTag(a.Sort)
	rs := v.sortOf(x.Type())
	v.D.declFun(name, []string{a.Sort}, rs)
	return mk(rs, name, a)
}

func isFloatSort(s string) bool { return s == sortF64 || s == sortF32 }

func (v *Verifier) binop(st *State, op token.Token, a, b *Term, opType types.Type, in ssa.Instruction) *Term {
	s := a.Sort
	switch {
	case s == "Int":
		switch op {
		case token.ADD:
			return v.wrapInt(tAdd(a, b), opType)
		case token.SUB:
			return v.wrapInt(tSub(a, b), opType)
		case token.MUL:
			return v.wrapInt(mk("Int", "*", a, b), opType)
		case token.QUO:
			if in != nil {
				v.safe(st, "div:zero", tNot(tEq(b, intLit(0))), in)
			}
			return mk("Int", "zz_tdiv", a, b)
		case token.REM:
			if in != nil {
				v.safe(st, "div:zero", tNot(tEq(b, intLit(0))), in)
			}
			return mk("Int", "zz_tmod", a, b)
		case token.EQL:
			return tEq(a, b)
		case token.NEQ:
			return tNot(tEq(a, b))
		case token.LSS:
			return tCmp("<", a, b)
		case token.LEQ:
			return tCmp("<=", a, b)
		case token.GTR:
			return tCmp(">", a, b)
		case token.GEQ:
			return tCmp(">=", a, b)
		}
	case s == "Bool":
		switch op {
		case token.EQL:
			return tEq(a, b)
		case token.NEQ:
			return tNot(tEq(a, b))
		case token.AND, token.LAND:
			return tAnd(a, b)
		case token.OR, token.LOR:
			return tOr(a, b)
		}
	case s == "String":
		switch op {
		case token.ADD:
			return mk("String", "str.++", a, b)
		case token.EQL:
			return tEq(a, b)
		case token.NEQ:
			return tNot(tEq(a, b))
		case token.LSS:
			return mk("Bool", "str.<", a, b)
		case token.LEQ:
			return mk("Bool", "str.<=", a, b)
		case token.GTR:
			return mk("Bool", "str.<", b, a)
		case token.GEQ:
			return mk("Bool", "str.<=", b, a)
		}
	case isFloatSort(s):
		switch op {
		case token.ADD:
			return mk(s, "fp.add", mk("RoundingMode", "RNE"), a, b)
		case token.SUB:
			return mk(s, "fp.sub", mk("RoundingMode", "RNE"), a, b)
		case token.MUL:
			return mk(s, "fp.mul", mk("RoundingMode", "RNE"), a, b)
		case token.QUO:
			return mk(s, "fp.div", mk("RoundingMode", "RNE"), a, b)
		case token.EQL:
			return mk("Bool", "fp.eq", a, b)
		case token.NEQ:
			return tNot(mk("Bool", "fp.eq", a, b))
		case token.LSS:
			return mk("Bool", "fp.lt", a, b)
		case token.LEQ:
			return mk("Bool", "fp.leq", a, b)
		case token.GTR:
			return mk("Bool", "fp.gt", a, b)
		case token.GEQ:
			return mk("Bool", "fp.geq", a, b)
		}
	case s == "Slice":
		// only comparison with nil
		if op == token.EQL || op == token.NEQ {
			var r *Term
			if isNilSlice(b) {
				r = tEq(slBase(a), tNilP)
			} else if isNilSlice(a) {
				r = tEq(slBase(b), tNilP)
			} else {
				r = tEq(a, b)
			}
			if op == token.NEQ {
				return tNot(r)
			}
			return r
		}
	case s == "Iface":
		if op == token.EQL || op == token.NEQ {
			var r *Term
			if b.Op == "zz_ifnil" {
				r = ifaceIsNil(a)
			} else if a.Op == "zz_ifnil" {
				r = ifaceIsNil(b)
			} else {
				r = tEq(a, b)
			}
			if op == token.NEQ {
				return tNot(r)
			}
			return r
		}
	default:
		if op == token.EQL {
			return tEq(a, b)
		}
		if op == token.NEQ {
			return tNot(tEq(a, b))
		}
	}
	// uninterpreted, named operator (type parameters, bit operations ...)
	rs := "Bool"
	switch op {
	case token.EQL, token.NEQ, token.LSS, token.LEQ, token.GTR, token.GEQ:
	default:
		rs = s
	}
	name := "zz_op_" + opName(op) + "_" + sortTag(s)
	v.D.declFun(name, []string{a.Sort, b.Sort}, rs)
	return mk(rs, name, a, b)
}

func opName(op token.Token) string {
	switch op {
	case token.LSS:
		return "lt"
	case token.LEQ:
		return "le"
	case token.GTR:
		return "gt"
	case token.GEQ:
		return "ge"
	case token.ADD:
		return "add"
	case token.SUB:
		return "sub"
	case token.MUL:
		return "mul"
	case token.QUO:
		return "quo"
	case token.REM:
		return "rem"
	case token.AND:
		return "and"
	case token.OR:
		return "or"
	case token.XOR:
		return "xor"
	case token.SHL:
		return "shl"
	case token.SHR:
		return "shr"
	case token.AND_NOT:
		return "andnot"
	}
	return sanitize(op.String())
}

func isNilSlice(t *Term) bool {
	return t.Op == "zz_mkslice" && t.Args[0].Op == "zz_nilptr"
}

// wrapInt: integer arithmetic is mathematical (assumption A1) except for sub-word unsigned bytes,
// where Go wrap-around is modelled exactly (b[0] -= 32).
func (v *Verifier) wrapInt(t *Term, ty types.Type) *Term {
	if v.exactInts {
		return v.wrapTo(t, ty)
	}
	return t
}

func (v *Verifier) wrapTo(t *Term, ty types.Type) *Term {
	b, ok := v.substT(ty).Underlying().(*types.Basic)
	if !ok {
		return t
	}
	lo, hi, ok := intRange(b)
	if !ok {
		return t
	}
	if n, isLit := isIntLit(t); isLit {
		l, _ := new(big.Int).SetString(lo, 10)
		h, _ := new(big.Int).SetString(hi, 10)
		bn := big.NewInt(n)
		if bn.Cmp(l) >= 0 && bn.Cmp(h) <= 0 {
			return t
		}
	}
	l, _ := new(big.Int).SetString(lo, 10)
	h, _ := new(big.Int).SetString(hi, 10)
	size := new(big.Int).Sub(h, l)
	size.Add(size, big.NewInt(1))
	// ((t - lo) mod size) + lo
	return mk("Int", "+", mk("Int", "mod", mk("Int", "-", t, bigLit(lo)), bigLit(size.String())), bigLit(lo))
}

// ---- conversions

func (v *Verifier) convert(st *State, a *Term, from, to types.Type, in ssa.Instruction) *Term {
	from, to = v.substT(from), v.substT(to)
	fs, ts := a.Sort, v.D.sortOf(to)
	fb, _ := from.Underlying().(*types.Basic)
	tb, _ := to.Underlying().(*types.Basic)
	switch {
	case fs == "Int" && ts == "Int":
		if fb != nil && tb != nil {
			flo, fhi, ok1 := intRange(fb)
			tlo, thi, ok2 := intRange(tb)
			if ok1 && ok2 {
				fl, _ := new(big.Int).SetString(flo, 10)
				fh, _ := new(big.Int).SetString(fhi, 10)
				tl, _ := new(big.Int).SetString(tlo, 10)
				th, _ := new(big.Int).SetString(thi, 10)
				if fl.Cmp(tl) >= 0 && fh.Cmp(th) <= 0 {
					return a // widening
				}
			}
		}
		return v.wrapTo(a, to)
	case fs == "Int" && isFloatSort(ts):
		// exact: the integer is taken as a 64-bit two's complement vector and rounded to nearest even
		return intToFloat(a, ts)
	case isFloatSort(fs) && isFloatSort(ts):
		if fs == ts {
			return a
		}
		eb, sb := "11", "53"
		if ts == sortF32 {
			eb, sb = "8", "24"
		}
		return mk(ts, fmt.Sprintf("(_ to_fp %s %s)", eb, sb), mk("RoundingMode", "RNE"), a)
	case isFloatSort(fs) && ts == "Int":
		// Go: truncation toward zero when the value is representable in the target type, otherwise the result is
		// implementation-defined (modelled as arbitrary)
		r := v.Y.fresh(v.D, "f2i", "Int")
		v.addTypeFacts(st, r, to)
		lo, hi, _ := intRange(tb)
		st.assume(tImp(floatInRange(a, lo, hi), tEq(r, floatTrunc(a))))
		return r
	case fs == "String" && ts == "String":
		return a
	case fs == ts:
		return a
	case fs == "String" && ts == "Slice":
		// []byte(s) / []rune(s): fresh backing array with abstract contents
		base := v.alloc()
		ln := v.Y.fresh(v.D, "convlen", "Int")
		st.assume(tCmp(">=", ln, intLit(0)))
		if sl, ok := to.Underlying().(*types.Slice); ok {
			if eb, ok := sl.Elem().Underlying().(*types.Basic); ok && eb.Kind() == types.Uint8 {
				st.assume(tEq(ln, mk("Int", "str.len", a)))
			}
		}
		v.note("abstracted: string->slice conversion contents")
		return mkSlice(base, intLit(0), ln, ln)
	case fs == "Slice" && ts == "String":
		r := v.Y.fresh(v.D, "b2s", "String")
		if sl, ok := from.Underlying().(*types.Slice); ok {
			if eb, ok := sl.Elem().Underlying().(*types.Basic); ok && eb.Kind() == types.Uint8 {
				st.assume(tEq(mk("Int", "str.len", r), slLen(a)))
				// content: r[i] == bytes[i]
				hI := v.heapFor(st, "Int")
				i := mk("Int", "zz_qi")
				body := tImp(tAnd(tCmp("<=", intLit(0), i), tCmp("<", i, slLen(a))),
					tEq(mk("Int", "str.to_code", mk("String", "str.at", r, i)), mk("Int", "select", hI.arrayTerm(), pElem(slBase(a), tAdd(slOff(a), i)))))
				st.assume(mk("Bool", "forall ((zz_qi Int))", body))
			}
		}
		return r
	case fs == "Int" && ts == "String":
		// string(rune): one byte for ASCII, an abstract multi-byte encoding otherwise
		r := v.Y.fresh(v.D, "r2s", "String")
		st.assume(tImp(tAnd(tCmp("<=", intLit(0), a), tCmp("<", a, intLit(128))), tEq(r, mk("String", "str.from_code", a))))
		return r
	}
	// generic / unknown conversion: uninterpreted, deterministic
	name := "zz_conv_" + sortTag(fs) + "_to_" + sortTag(ts)
	v.D.declFun(name, []string{fs}, ts)
	return mk(ts, name, a)
}

func fpLit(sort, real string) *Term {
	eb, sb := "11", "53"
	if sort == sortF32 {
		eb, sb = "8", "24"
	}
	return mk(sort, fmt.Sprintf("((_ to_fp %s %s) RNE %s)", eb, sb, real))
}

func realLit(dec string) string {
	if strings.HasPrefix(dec, "-") {
		return "(- " + dec[1:] + ".0)"
	}
	return dec + ".0"
}

// intToFloat: exact conversion through a signed 64-bit vector
func intToFloat(a *Term, ts string) *Term {
	eb, sb := "11", "53"
	if ts == sortF32 {
		eb, sb = "8", "24"
	}
	return mk(ts, fmt.Sprintf("(_ to_fp %s %s)", eb, sb), mk("RoundingMode", "RNE"), mk("(_ BitVec 64)", "(_ int2bv 64)", a))
}

// floatInRange: the float (any width) is a number whose truncation lies in [lo, hi]
func floatInRange(a *Term, lo, hi string) *Term {
	l, _ := new(big.Int).SetString(lo, 10)
	h, _ := new(big.Int).SetString(hi, 10)
	h1 := new(big.Int).Add(h, big.NewInt(1))
	l1 := new(big.Int).Sub(l, big.NewInt(1))
	// lo-1 < a < hi+1 ; both bounds are exactly representable for the Go integer types (powers of two) except lo-1,
	// so use a >= lo instead when lo is a power of two boundary
	return tAnd(tNot(mk("Bool", "fp.isNaN", a)), tNot(mk("Bool", "fp.isInfinite", a)),
		tOr(mk("Bool", "fp.geq", a, fpLit(a.Sort, realLit(l.String()))), mk("Bool", "fp.gt", a, fpLit(a.Sort, realLit(l1.String())))),
		mk("Bool", "fp.lt", a, fpLit(a.Sort, realLit(h1.String()))))
}

// floatTrunc: truncation toward zero as a mathematical integer (meaningful when in the signed 64-bit range)
func floatTrunc(a *Term) *Term {
	b := mk("(_ BitVec 64)", "(_ fp.to_sbv 64)", mk("RoundingMode", "RTZ"), a)
	u := mk("Int", "bv2int", b)
	return mk("Int", "ite", mk("Bool", "bvslt", b, mk("(_ BitVec 64)", "#x0000000000000000")), mk("Int", "-", u, mk("Int", "18446744073709551616")), u)
}

// ---- type assertions

func (v *Verifier) typeAssert(st *State, x *ssa.TypeAssert) {
	i := v.val(st, x.X)
	at := v.substT(x.AssertedType)
	f := st.top()
	if _, isIface := at.Underlying().(*types.Interface); isIface {
		if _, isTP := types.Unalias(at).(*types.TypeParam); !isTP {
			ok := v.implementsPred(st, i, at)
			if x.CommaOk {
				f.tuples[x] = []*Term{tIte(ok, i, tNilI), ok}
			} else {
				v.safe(st, "assert:iface", ok, x)
				st.assume(ok)
				v.bind(st, x, i)
			}
			return
		}
	}
	ok := v.dynIs(i, at)
	val := v.unbox(i, at)
	s := v.D.sortOf(at)
	if !strings.HasPrefix(i.Op, "zz_box_") {
		// i == box(tid, unbox(i)) when ok
		st.assume(tImp(ok, mk("Bool", "=", i, mk("Iface", v.D.boxFn(s), v.D.typeID(at), val))))
	}
	if x.CommaOk {
		f.tuples[x] = []*Term{tIte(ok, val, v.D.zero(at)), ok}
		if ok.Op != "true" && ok.Op != "false" {
			v.addTypeFacts(st, val, at)
		}
		return
	}
	v.safe(st, "assert:type", ok, x)
	st.assume(ok)
	v.addTypeFacts(st, val, at)
	v.bind(st, x, val)
}

// implementsPred: does the dynamic type of i implement interface type it?
func (v *Verifier) implementsPred(st *State, i *Term, it types.Type) *Term {
	name := "zz_impl_" + sanitize(typeStr(it))
	v.D.declFun(name, []string{"Int"}, "Bool")
	dyn := mk("Int", "zz_dyn", i)
	if strings.HasPrefix(i.Op, "zz_box_") {
		dyn = i.Args[0]
	}
	p := mk("Bool", name, dyn)
	// nil never implements
	key := "implnil:" + name
	if !v.factSeen[key] {
		v.factSeen[key] = true
		v.D.facts = append(v.D.facts, tNot(mk("Bool", name, intLit(0))))
	}
	// known concrete types
	iface, _ := it.Underlying().(*types.Interface)
	if iface != nil {
		for ts, id := range v.D.tids {
			k2 := fmt.Sprintf("impl:%s:%d", name, id)
			if v.factSeen[k2] {
				continue
			}
			if ty, ok := v.D.tidTy[ts]; ok {
				v.factSeen[k2] = true
				f := mk("Bool", name, intLit(int64(id)))
				if types.Implements(ty, iface) {
					v.D.facts = append(v.D.facts, f)
				} else {
					v.D.facts = append(v.D.facts, tNot(f))
				}
			}
		}
	}
	return p
}

// ---- indexing, slicing

func (v *Verifier) indexAddr(st *State, x *ssa.IndexAddr) *Term {
	a := v.val(st, x.X)
	i := v.val(st, x.Index)
	switch t := v.substT(x.X.Type()).Underlying().(type) {
	case *types.Slice:
		v.safe(st, "index:slice", tAnd(tCmp("<=", intLit(0), i), tCmp("<", i, slLen(a))), x)
		v.instantiateAt(st, i)
		return pElem(slBase(a), tAdd(slOff(a), i))
	case *types.Pointer: // *array
		if arr, ok := t.Elem().Underlying().(*types.Array); ok {
			v.safe(st, "nil:indexaddr", ptrNonNil(a), x)
			v.safe(st, "index:array", tAnd(tCmp("<=", intLit(0), i), tCmp("<", i, intLit(arr.Len()))), x)
			return pElem(a, i)
		}
	}
	v.note("abstracted: indexaddr")
	return v.Y.fresh(v.D, "ia", "Ptr")
}

func (v *Verifier) indexVal(st *State, x *ssa.Index) *Term {
	a := v.val(st, x.X)
	i := v.val(st, x.Index)
	rs := v.sortOf(x.Type())
	switch t := v.substT(x.X.Type()).Underlying().(type) {
	case *types.Array:
		v.safe(st, "index:array", tAnd(tCmp("<=", intLit(0), i), tCmp("<", i, intLit(t.Len()))), x)
		return mk(rs, "select", a, i)
	case *types.Basic: // string (generic code)
		v.safe(st, "index:string", tAnd(tCmp("<=", intLit(0), i), tCmp("<", i, mk("Int", "str.len", a))), x)
		return mk("Int", "str.to_code", mk("String", "str.at", a, i))
	}
	v.note("abstracted: index")
	return v.Y.fresh(v.D, "ix", rs)
}

func (v *Verifier) sliceOp(st *State, x *ssa.Slice) *Term {
	a := v.val(st, x.X)
	var lo, hi, mx *Term
	if x.Low != nil {
		lo = v.val(st, x.Low)
	} else {
		lo = intLit(0)
	}
	switch t := v.substT(x.X.Type()).Underlying().(type) {
	case *types.Slice:
		if x.High != nil {
			hi = v.val(st, x.High)
		} else {
			hi = slLen(a)
		}
		if x.Max != nil {
			mx = v.val(st, x.Max)
		} else {
			mx = slCap(a)
		}
		v.safe(st, "slice:bounds", tAnd(tCmp("<=", intLit(0), lo), tCmp("<=", lo, hi), tCmp("<=", hi, mx), tCmp("<=", mx, slCap(a))), x)
		return mkSlice(slBase(a), tAdd(slOff(a), lo), tSub(hi, lo), tSub(mx, lo))
	case *types.Basic: // string
		if x.High != nil {
			hi = v.val(st, x.High)
		} else {
			hi = mk("Int", "str.len", a)
		}
		v.safe(st, "slice:string", tAnd(tCmp("<=", intLit(0), lo), tCmp("<=", lo, hi), tCmp("<=", hi, mk("Int", "str.len", a))), x)
		return mk("String", "str.substr", a, lo, tSub(hi, lo))
	case *types.Pointer:
		if arr, ok := t.Elem().Underlying().(*types.Array); ok {
			n := intLit(arr.Len())
			if x.High != nil {
				hi = v.val(st, x.High)
			} else {
				hi = n
			}
			if x.Max != nil {
				mx = v.val(st, x.Max)
			} else {
				mx = n
			}
			v.safe(st, "nil:slicearray", ptrNonNil(a), x)
			v.safe(st, "slice:bounds", tAnd(tCmp("<=", intLit(0), lo), tCmp("<=", lo, hi), tCmp("<=", hi, mx), tCmp("<=", mx, n)), x)
			return mkSlice(a, lo, tSub(hi, lo), tSub(mx, lo))
		}
	}
	v.note("abstracted: slice op")
	return v.Y.fresh(v.D, "sl", "Slice")
}

// instantiateAt adds the instances of every registered quantified fact at index term i (engine-side
// quantifier instantiation: keeps the queries ground where possible).
func (v *Verifier) instantiateAt(st *State, i *Term) {
	key := i.String()
	if i.Sort == "Int" {
		known := false
		for _, w := range st.idxTerms {
			if termEq(w, i) {
				known = true
			}
		}
		if !known && len(st.idxTerms) < 12 {
			st.idxTerms = append(st.idxTerms, i)
		}
	}
	for k, qf := range st.qfacts {
		if qf.sort != i.Sort {
			continue
		}
		tag := fmt.Sprintf("%d@%s", k, key)
		if st.qdone == nil {
			st.qdone = map[string]bool{}
		}
		if st.qdone[tag] {
			continue
		}
		st.qdone[tag] = true
		st.assume(qf.inst(i))
	}
}

// ---- maps

func (v *Verifier) mapHeaps(st *State, mt *types.Map) (*HeapArr, *HeapArr) {
	ks := v.sortOf(mt.Key())
	vs := v.sortOf(mt.Elem())
	dom := v.customHeap(st, "mapdom_"+sortTag(ks)+"_"+sortTag(vs), "Ptr", "(Array "+ks+" Bool)")
	val := v.customHeap(st, "mapval_"+sortTag(ks)+"_"+sortTag(vs), "Ptr", "(Array "+ks+" "+vs+")")
	return dom, val
}

func (v *Verifier) lookup(st *State, x *ssa.Lookup) {
	a := v.val(st, x.X)
	k := v.val(st, x.Index)
	f := st.top()
	if mt, ok := v.substT(x.X.Type()).Underlying().(*types.Map); ok {
		dom, val := v.mapHeaps(st, mt)
		in := tAnd(tNot(tEq(a, tNilP)), mk("Bool", "select", dom.read(a), k))
		raw := mk(val.ElSort[strings.LastIndex(val.ElSort, " ")+1:len(val.ElSort)-1], "select", val.read(a), k)
		raw.Sort = v.sortOf(mt.Elem())
		r := tIte(in, raw, v.D.zero(mt.Elem()))
		v.addTypeFacts(st, raw, mt.Elem())
		if x.CommaOk {
			f.tuples[x] = []*Term{r, in}
		} else {
			v.bind(st, x, r)
		}
		return
	}
	// string index
	v.safe(st, "index:string", tAnd(tCmp("<=", intLit(0), k), tCmp("<", k, mk("Int", "str.len", a))), x)
	c := mk("Int", "str.to_code", mk("String", "str.at", a, k))
	st.assume(tImp(tAnd(tCmp("<=", intLit(0), k), tCmp("<", k, mk("Int", "str.len", a))), tAnd(tCmp("<=", intLit(0), c), tCmp("<=", c, intLit(255)))))
	v.bind(st, x, c)
}

func (v *Verifier) mapUpdate(st *State, x *ssa.MapUpdate) {
	a := v.val(st, x.Map)
	k := v.val(st, x.Key)
	val := v.val(st, x.Value)
	mt := v.substT(x.Map.Type()).Underlying().(*types.Map)
	v.safe(st, "nil:mapwrite", tNot(tEq(a, tNilP)), x)
	dom, vals := v.mapHeaps(st, mt)
	v.frameCheckKey(st, dom.Key, a, x)
	dom.write(a, mk(dom.ElSort, "store", dom.read(a), k, tTrue))
	vals.write(a, mk(vals.ElSort, "store", vals.read(a), k, val))
	v.recordWrite(st, dom.Key, a)
	v.recordWrite(st, vals.Key, a)
}

// ---- range

func (v *Verifier) rangeInit(st *State, x *ssa.Range) {
	f := st.top()
	a := v.val(st, x.X)
	it := &iterState{m: a}
	if mt, ok := v.substT(x.X.Type()).Underlying().(*types.Map); ok {
		it.mapT = mt
		ks := v.sortOf(mt.Key())
		it.visited = mk("(Array "+ks+" Bool)", "((as const (Array "+ks+" Bool)) false)")
		it.count = intLit(0)
		dom0, _ := v.mapHeaps(st, mt)
		it.dom0 = dom0.read(a)
	} else {
		it.isStr = true
		it.str = a
		it.pos = intLit(0)
	}
	if f.iters == nil {
		f.iters = map[ssa.Value]*iterState{}
	}
	f.iters[x] = it
	v.bind(st, x, tNilP)
}

func (v *Verifier) rangeNext(st *State, x *ssa.Next) {
	f := st.top()
	it := f.iters[x.Iter]
	if it == nil {
		v.note("abstracted: next on unknown iterator")
		f.tuples[x] = []*Term{v.Y.fresh(v.D, "ok", "Bool"), v.Y.fresh(v.D, "k", "Int"), v.Y.fresh(v.D, "v", "Int")}
		return
	}
	ok := v.Y.fresh(v.D, "ok", "Bool")
	if it.isStr {
		// abstract rune sequence: index strictly increasing, rune value given by zz_runeat(s, index)
		idx := v.Y.fresh(v.D, "ri", "Int")
		v.D.declFun("zz_runeat", []string{"String", "Int"}, "Int")
		v.D.declFun("zz_runenext", []string{"String", "Int"}, "Int")
		r := mk("Int", "zz_runeat", it.str, idx)
		ln := mk("Int", "str.len", it.str)
		st.assume(tEq(idx, it.pos))
		st.assume(tEq(ok, tCmp("<", it.pos, ln)))
		nx := mk("Int", "zz_runenext", it.str, idx)
		st.assume(tImp(ok, tAnd(tCmp(">", nx, idx), tCmp("<=", nx, ln))))
		st.assume(tImp(ok, tAnd(tCmp("<=", intLit(0), r), tCmp("<=", r, intLit(1114111)))))
		it.pos = nx
		f.tuples[x] = []*Term{ok, idx, r}
		return
	}
	mt := it.mapT
	ks := v.sortOf(mt.Key())
	k := v.Y.fresh(v.D, "rk", ks)
	dom, vals := v.mapHeaps(st, mt)
	domA := dom.read(it.m)
	valA := vals.read(it.m)
	val := mk(v.sortOf(mt.Elem()), "select", valA, k)
	st.assume(tImp(ok, tAnd(tNot(tEq(it.m, tNilP)), mk("Bool", "select", domA, k), tNot(mk("Bool", "select", it.visited, k)))))
	v.instantiateAt(st, k)
	// exhaustion: every key visited
	if ks != "String" {
		qk := mk(ks, "zz_qk")
		st.assume(tImp(tNot(ok), mk("Bool", "forall ((zz_qk "+ks+"))", tImp(tAnd(tNot(tEq(it.m, tNilP)), mk("Bool", "select", domA, qk)), mk("Bool", "select", it.visited, qk)))))
	}
	{
		// the same fact for engine-side instantiation (string-sorted quantifiers are not given to the solvers)
		vis, m := it.visited, it.m
		st.qfacts = append(st.qfacts, qfact{sort: ks, inst: func(k2 *Term) *Term {
			return tImp(tNot(ok), tImp(tAnd(tNot(tEq(m, tNilP)), mk("Bool", "select", domA, k2)), mk("Bool", "select", vis, k2)))
		}})
	}
	if ks == "String" {
		// the exhaustion fact at the string literals the contract of this function speaks about (string-sorted
		// quantifiers are instantiated by the engine, and a literal of the contract is not a term of the program)
		for _, lit := range v.contractLits {
			l := strLit(lit)
			st.assume(tImp(tNot(ok), tImp(tAnd(tNot(tEq(it.m, tNilP)), mk("Bool", "select", domA, l)), mk("Bool", "select", it.visited, l))))
		}
	}
	if v.setTheory && ks == "String" {
		// the same exhaustion fact as one array equation (every key of the map is in the visited set), for contracts
		// that speak about the visited set as a whole
		v.usesSetTheory()
		st.assume(tImp(tAnd(tNot(ok), tNot(tEq(it.m, tNilP))), tSubset(domA, it.visited)))
	}
	if it.count != nil {
		// a range over a map that is not written meanwhile produces every key exactly once: when it ends, the number of
		// keys produced is len(m) (only stated while the key set is syntactically the one the loop started with)
		if it.dom0 != nil && termEq(it.dom0, domA) {
			st.assume(tImp(tNot(ok), tEq(it.count, v.mapLen(st, it.m, mt))))
		}
		it.count = tIte(ok, tAdd(it.count, intLit(1)), it.count)
	}
	it.visited = mk(it.visited.Sort, "store", it.visited, k, tTrue)
	v.addTypeFacts(st, val, mt.Elem())
	f.tuples[x] = []*Term{ok, k, val}
}
