package main

import (
	"fmt"
	"go/ast"
	"go/constant"
	"go/parser"
	"go/token"
	"go/types"
	"strconv"

	"golang.org/x/tools/go/ssa"
	"strings"
)

type Val struct {
	T  *Term
	Ty types.Type // nil for spec sorts
}

type Env struct {
	v     *Verifier
	st    *State
	old   *State
	vars  map[string]Val
	pkg   *types.Package
	frame *Frame
	qn    int
	mode  int   // 0 neutral, 1 assuming (register quantified facts), 2 proving (skolemise quantified goals)
	guard *Term // assuming mode: the hypotheses (antecedents of enclosing implications) a registered quantified fact holds under
}

// qfact is a universally quantified integer-range fact kept for engine-side instantiation.
type qfact struct {
	sort   string
	lo, hi *Term
	guard  *Term
	inst   func(idx *Term) *Term
}

var untypedNil = types.Typ[types.UntypedNil]

func (e *Env) child() *Env {
	c := *e
	c.vars = make(map[string]Val, len(e.vars))
	for k, v := range e.vars {
		c.vars[k] = v
	}
	return &c
}

func (e *Env) errf(format string, a ...any) error { return fmt.Errorf(format, a...) }

func (e *Env) evalBool(x ast.Expr) (*Term, error) {
	v, err := e.eval(x)
	if err != nil {
		return nil, err
	}
	if v.T == nil || v.T.Sort != "Bool" {
		return nil, fmt.Errorf("expected bool expression, got sort %v", sortOfVal(v))
	}
	return v.T, nil
}

func sortOfVal(v Val) string {
	if v.T == nil {
		return "nil"
	}
	return v.T.Sort
}

// findPackage resolves an identifier naming an imported package.
func (e *Env) findPackage(name string) *types.Package {
	if e.pkg == nil {
		return nil
	}
	for _, p := range e.pkg.Imports() {
		if p.Name() == name {
			return p
		}
	}
	// file-level aliases (p "github.com/.../internals") are not recorded in types.Package; try known aliases
	for _, pk := range e.v.P.Pkgs {
		if pk.Types == e.pkg {
			for _, f := range pk.Syntax {
				for _, im := range f.Imports {
					if im.Name != nil && im.Name.Name == name {
						path, _ := strconv.Unquote(im.Path.Value)
						for _, p := range e.pkg.Imports() {
							if p.Path() == path {
								return p
							}
						}
					}
				}
			}
		}
	}
	// any package of the program with that name (contracts may name packages that the file does not import)
	for _, pk := range e.v.P.Pkgs {
		if pk.Types != nil && pk.Types.Name() == name {
			return pk.Types
		}
	}
	var found *types.Package
	for _, pk := range e.v.P.Prog.AllPackages() {
		if pk.Pkg.Name() == name {
			found = pk.Pkg
		}
	}
	return found
}

func (e *Env) lookupObj(pkg *types.Package, name string) (Val, bool, error) {
	if pkg == nil {
		return Val{}, false, nil
	}
	obj := pkg.Scope().Lookup(name)
	if obj == nil {
		return Val{}, false, nil
	}
	switch o := obj.(type) {
	case *types.Const:
		return e.constVal(o.Val(), o.Type()), true, nil
	case *types.Var:
		addr := e.v.globalPtrByName(pkg.Path(), name)
		return Val{e.v.load(e.st, addr, o.Type()), o.Type()}, true, nil
	case *types.TypeName:
		return Val{nil, o.Type()}, true, nil
	case *types.Func:
		if fn := e.v.P.Prog.FuncValue(o); fn != nil {
			return Val{e.v.fnTermFor(fn), o.Type()}, true, nil
		}
	}
	return Val{}, false, nil
}

func (e *Env) constVal(c constant.Value, t types.Type) Val {
	switch c.Kind() {
	case constant.Bool:
		if constant.BoolVal(c) {
			return Val{tTrue, t}
		}
		return Val{tFalse, t}
	case constant.String:
		return Val{strLit(constant.StringVal(c)), t}
	case constant.Int:
		return Val{bigLit(c.ExactString()), t}
	case constant.Float:
		return Val{fpFromRat(sortF64, c), types.Typ[types.Float64]}
	}
	return Val{}
}

// resolveType interprets an expression as a Go type.
func (e *Env) resolveType(x ast.Expr) (types.Type, error) {
	switch t := x.(type) {
	case *ast.Ident:
		if v, ok := e.vars["type:"+t.Name]; ok {
			return v.Ty, nil
		}
		if e.frame != nil && e.frame.fn != nil {
			fn := originOf(e.frame.fn)
			for fn != nil {
				tps := fn.TypeParams()
				for i := 0; i < tps.Len(); i++ {
					if tps.At(i).Obj().Name() == t.Name {
						return tps.At(i), nil
					}
				}
				if recv := fn.Signature.Recv(); recv != nil {
					rt := recv.Type()
					if p, ok := rt.(*types.Pointer); ok {
						rt = p.Elem()
					}
					if n, ok := rt.(*types.Named); ok {
						tp := n.TypeParams()
						for i := 0; i < tp.Len(); i++ {
							if tp.At(i).Obj().Name() == t.Name {
								return tp.At(i), nil
							}
						}
						ta := n.TypeArgs()
						for i := 0; i < ta.Len(); i++ {
							if tpp, ok := ta.At(i).(*types.TypeParam); ok && tpp.Obj().Name() == t.Name {
								return tpp, nil
							}
						}
					}
				}
				fn = fn.Parent()
			}
		}
		if e.pkg != nil {
			if obj := e.pkg.Scope().Lookup(t.Name); obj != nil {
				if tn, ok := obj.(*types.TypeName); ok {
					return tn.Type(), nil
				}
			}
		}
		if obj := types.Universe.Lookup(t.Name); obj != nil {
			if tn, ok := obj.(*types.TypeName); ok {
				return tn.Type(), nil
			}
		}
		return nil, fmt.Errorf("unknown type %s", t.Name)
	case *ast.StarExpr:
		el, err := e.resolveType(t.X)
		if err != nil {
			return nil, err
		}
		return types.NewPointer(el), nil
	case *ast.ArrayType:
		el, err := e.resolveType(t.Elt)
		if err != nil {
			return nil, err
		}
		if t.Len == nil {
			return types.NewSlice(el), nil
		}
		return nil, fmt.Errorf("array types unsupported in contracts")
	case *ast.MapType:
		k, err := e.resolveType(t.Key)
		if err != nil {
			return nil, err
		}
		el, err := e.resolveType(t.Value)
		if err != nil {
			return nil, err
		}
		return types.NewMap(k, el), nil
	case *ast.SelectorExpr:
		if id, ok := t.X.(*ast.Ident); ok {
			if p := e.findPackage(id.Name); p != nil {
				if obj := p.Scope().Lookup(t.Sel.Name); obj != nil {
					if tn, ok := obj.(*types.TypeName); ok {
						return tn.Type(), nil
					}
				}
			}
		}
	case *ast.ParenExpr:
		return e.resolveType(t.X)
	case *ast.IndexExpr:
		// generic instantiation Name[T]
		base, err := e.resolveType(t.X)
		if err != nil {
			return nil, err
		}
		arg, err := e.resolveType(t.Index)
		if err != nil {
			return nil, err
		}
		if n, ok := base.(*types.Named); ok {
			inst, err := types.Instantiate(nil, n.Origin(), []types.Type{arg}, false)
			if err == nil {
				return inst, nil
			}
		}
	case *ast.InterfaceType:
		return types.NewInterfaceType(nil, nil), nil
	}
	return nil, fmt.Errorf("cannot resolve type expression %T", x)
}

func findField(t types.Type, name string) ([]int, []types.Type, bool) {
	// BFS over embedded fields; returns index path and the type at each step
	type cand struct {
		t    types.Type
		path []int
		tys  []types.Type
	}
	work := []cand{{t, nil, nil}}
	for depth := 0; depth < 4 && len(work) > 0; depth++ {
		var next []cand
		for _, c := range work {
			ct := types.Unalias(c.t)
			if p, ok := ct.Underlying().(*types.Pointer); ok {
				ct = p.Elem()
			}
			st, ok := ct.Underlying().(*types.Struct)
			if !ok {
				continue
			}
			for i := 0; i < st.NumFields(); i++ {
				f := st.Field(i)
				if f.Name() == name {
					return append(append([]int(nil), c.path...), i), append(append([]types.Type(nil), c.tys...), f.Type()), true
				}
			}
			for i := 0; i < st.NumFields(); i++ {
				f := st.Field(i)
				if f.Embedded() {
					next = append(next, cand{f.Type(), append(append([]int(nil), c.path...), i), append(append([]types.Type(nil), c.tys...), f.Type())})
				}
			}
		}
		work = next
	}
	return nil, nil, false
}

// fieldAddr computes the address of field `name` starting from a pointer value (ptr, pointing to struct type elem).
func (e *Env) fieldAddr(base Val, name string) (*Term, types.Type, error) {
	path, tys, ok := findField(base.Ty, name)
	if !ok {
		return nil, nil, fmt.Errorf("no field %s in %s", name, typeStr(base.Ty))
	}
	cur := base.T
	curTy := types.Unalias(e.v.substT(base.Ty))
	for k, idx := range path {
		// cur must be a pointer to a struct here
		if _, isPtr := curTy.Underlying().(*types.Pointer); !isPtr {
			return nil, nil, fmt.Errorf("field %s: value of type %s is not addressable", name, typeStr(curTy))
		}
		sn := e.v.sortOf(curTy.Underlying().(*types.Pointer).Elem())
		addr := e.v.D.fieldPtr(cur, sn, idx)
		ft := tys[k]
		if k == len(path)-1 {
			return addr, ft, nil
		}
		// intermediate embedded field: pointer -> load; struct value -> continue with its address
		if _, isPtr := ft.Underlying().(*types.Pointer); isPtr {
			cur = e.v.load(e.st, addr, ft)
			curTy = ft
		} else {
			cur = addr
			curTy = types.NewPointer(ft)
		}
	}
	return nil, nil, fmt.Errorf("bad field path")
}

func (e *Env) evalAddr(x ast.Expr) (*Term, types.Type, error) {
	switch t := x.(type) {
	case *ast.ParenExpr:
		return e.evalAddr(t.X)
	case *ast.StarExpr:
		p, err := e.eval(t.X)
		if err != nil {
			return nil, nil, err
		}
		pt, ok := e.v.substT(p.Ty).Underlying().(*types.Pointer)
		if !ok {
			return nil, nil, fmt.Errorf("deref of non-pointer %s", typeStr(p.Ty))
		}
		return p.T, pt.Elem(), nil
	case *ast.SelectorExpr:
		b, err := e.eval(t.X)
		if err != nil {
			return nil, nil, err
		}
		if b.Ty == nil {
			return nil, nil, fmt.Errorf("selector on spec value")
		}
		if _, isPtr := e.v.substT(b.Ty).Underlying().(*types.Pointer); isPtr {
			return e.fieldAddr(b, t.Sel.Name)
		}
		// addressable struct variable?
		a, ty, err := e.evalAddr(t.X)
		if err != nil {
			return nil, nil, err
		}
		return e.fieldAddr(Val{a, types.NewPointer(ty)}, t.Sel.Name)
	case *ast.IndexExpr:
		b, err := e.eval(t.X)
		if err != nil {
			return nil, nil, err
		}
		i, err := e.eval(t.Index)
		if err != nil {
			return nil, nil, err
		}
		if sl, ok := e.v.substT(b.Ty).Underlying().(*types.Slice); ok {
			return pElem(slBase(b.T), tAdd(slOff(b.T), i.T)), sl.Elem(), nil
		}
		return nil, nil, fmt.Errorf("index address of non-slice")
	case *ast.Ident:
		if e.frame != nil {
			if nr, ok := e.frame.names[t.Name]; ok && nr.isAddr {
				if a, ok := e.frame.vals[nr.val]; ok {
					return a, nr.val.Type().Underlying().(*types.Pointer).Elem(), nil
				}
			}
		}
		if e.pkg != nil {
			if obj, ok := e.pkg.Scope().Lookup(t.Name).(*types.Var); ok {
				return e.v.globalPtrByName(e.pkg.Path(), t.Name), obj.Type(), nil
			}
		}
	}
	return nil, nil, fmt.Errorf("expression is not addressable: %T", x)
}

func (e *Env) eval(x ast.Expr) (Val, error) {
	switch t := x.(type) {
	case *ast.ParenExpr:
		return e.eval(t.X)
	case *ast.BasicLit:
		switch t.Kind {
		case token.INT:
			return Val{bigLit(t.Value), types.Typ[types.Int]}, nil
		case token.STRING:
			s, err := strconv.Unquote(t.Value)
			if err != nil {
				return Val{}, err
			}
			return Val{strLit(s), types.Typ[types.String]}, nil
		case token.CHAR:
			r, _, _, err := strconv.UnquoteChar(t.Value[1:len(t.Value)-1], '\'')
			if err != nil {
				return Val{}, err
			}
			return Val{intLit(int64(r)), types.Typ[types.Rune]}, nil
		case token.FLOAT:
			c := constant.MakeFromLiteral(t.Value, token.FLOAT, 0)
			return Val{fpFromRat(sortF64, c), types.Typ[types.Float64]}, nil
		}
	case *ast.Ident:
		return e.evalIdent(t)
	case *ast.SelectorExpr:
		if id, ok := t.X.(*ast.Ident); ok {
			if _, isVar := e.vars[id.Name]; !isVar {
				if e.frame == nil || !e.hasName(id.Name) {
					if p := e.findPackage(id.Name); p != nil {
						v, ok, err := e.lookupObj(p, t.Sel.Name)
						if err != nil {
							return Val{}, err
						}
						if ok {
							return v, nil
						}
						return Val{}, fmt.Errorf("unknown %s.%s", id.Name, t.Sel.Name)
					}
				}
			}
		}
		b, err := e.eval(t.X)
		if err != nil {
			return Val{}, err
		}
		if b.Ty == nil {
			return Val{}, fmt.Errorf("selector .%s on spec value", t.Sel.Name)
		}
		bt := e.v.substT(b.Ty)
		if _, isPtr := bt.Underlying().(*types.Pointer); isPtr {
			a, ft, err := e.fieldAddr(b, t.Sel.Name)
			if err != nil {
				return Val{}, err
			}
			return Val{e.v.load(e.st, a, ft), ft}, nil
		}
		if st, ok := bt.Underlying().(*types.Struct); ok {
			for i := 0; i < st.NumFields(); i++ {
				if st.Field(i).Name() == t.Sel.Name {
					e.v.D.sortOf(bt)
					return Val{e.v.D.structProj(b.T, st, i), st.Field(i).Type()}, nil
				}
			}
		}
		return Val{}, fmt.Errorf("cannot select .%s on %s", t.Sel.Name, typeStr(b.Ty))
	case *ast.StarExpr:
		a, ty, err := e.evalAddr(t)
		if err != nil {
			return Val{}, err
		}
		return Val{e.v.load(e.st, a, ty), ty}, nil
	case *ast.UnaryExpr:
		switch t.Op {
		case token.NOT:
			b, err := e.neutral().evalBool(t.X)
			if err != nil {
				return Val{}, err
			}
			return Val{tNot(b), types.Typ[types.Bool]}, nil
		case token.SUB:
			a, err := e.eval(t.X)
			if err != nil {
				return Val{}, err
			}
			if a.T.Sort == "Int" {
				return Val{tSub(intLit(0), a.T), a.Ty}, nil
			}
			if isFloatSort(a.T.Sort) {
				return Val{mk(a.T.Sort, "fp.neg", a.T), a.Ty}, nil
			}
			if a.T.Sort == "Real" {
				return Val{mk("Real", "-", a.T), nil}, nil
			}
		case token.AND:
			a, ty, err := e.evalAddr(t.X)
			if err != nil {
				return Val{}, err
			}
			return Val{a, types.NewPointer(ty)}, nil
		}
	case *ast.BinaryExpr:
		return e.evalBinary(t)
	case *ast.IndexExpr:
		b, err := e.eval(t.X)
		if err != nil {
			return Val{}, err
		}
		i, err := e.eval(t.Index)
		if err != nil {
			return Val{}, err
		}
		if b.Ty == nil {
			return Val{}, fmt.Errorf("index on spec value")
		}
		switch u := e.v.substT(b.Ty).Underlying().(type) {
		case *types.Slice:
			a := pElem(slBase(b.T), tAdd(slOff(b.T), i.T))
			if !mentionsBound(i.T) {
				e.v.instantiateAt(e.st, i.T)
			}
			return Val{e.v.load(e.st, a, u.Elem()), u.Elem()}, nil
		case *types.Map:
			dom, val := e.v.mapHeaps(e.st, u)
			in := tAnd(tNot(tEq(b.T, tNilP)), mk("Bool", "select", dom.read(b.T), i.T))
			raw := mk(e.v.sortOf(u.Elem()), "select", val.read(b.T), i.T)
			return Val{tIte(in, raw, e.v.D.zero(e.v.substT(u.Elem()))), u.Elem()}, nil
		case *types.Basic:
			return Val{mk("Int", "str.to_code", mk("String", "str.at", b.T, i.T)), types.Typ[types.Uint8]}, nil
		}
		return Val{}, fmt.Errorf("cannot index %s", typeStr(b.Ty))
	case *ast.TypeAssertExpr:
		b, err := e.eval(t.X)
		if err != nil {
			return Val{}, err
		}
		ty, err := e.resolveType(t.Type)
		if err != nil {
			return Val{}, err
		}
		if b.T.Sort != "Iface" {
			return Val{}, fmt.Errorf("type assertion on non-interface")
		}
		return Val{e.v.unbox(b.T, ty), ty}, nil
	case *ast.CallExpr:
		return e.evalCall(t)
	}
	return Val{}, fmt.Errorf("unsupported expression %T", x)
}

func (e *Env) hasName(n string) bool {
	if e.frame == nil {
		return false
	}
	_, ok := e.frame.names[n]
	return ok
}

func (e *Env) evalIdent(t *ast.Ident) (Val, error) {
	if v, ok := e.vars[t.Name]; ok {
		return v, nil
	}
	switch t.Name {
	case "nil":
		return Val{nil, untypedNil}, nil
	case "true":
		return Val{tTrue, types.Typ[types.Bool]}, nil
	case "false":
		return Val{tFalse, types.Typ[types.Bool]}, nil
	}
	if gs, ok := e.v.C.GhostVars[t.Name]; ok {
		return Val{e.v.ghostVar(e.st, t.Name, gs), nil}, nil
	}
	if e.frame != nil {
		if t.Name == "zz_i" {
			// iterations completed in a range-index loop: (rangeindex phi)+1
			for val, term := range e.frame.vals {
				if phi, ok := val.(interface{ Comment() string }); ok {
					_ = phi
				}
				_ = term
			}
		}
		if nr, ok := e.frame.names[t.Name]; ok {
			if val, ok := e.frame.vals[nr.val]; ok {
				if nr.isAddr {
					et := nr.val.Type().Underlying().(*types.Pointer).Elem()
					return Val{e.v.load(e.st, val, et), et}, nil
				}
				// a variable whose address is taken lives in a cell: its current content, not the value it was initialised with
				if al := allocNamed(e.frame.fn, t.Name); al != nil {
					if cell, ok := e.frame.vals[al]; ok {
						et := al.Type().Underlying().(*types.Pointer).Elem()
						return Val{e.v.load(e.st, cell, et), et}, nil
					}
				}
				return Val{val, nr.val.Type()}, nil
			}
		}
	}
	if v, ok, err := e.lookupObj(e.pkg, t.Name); ok || err != nil {
		return v, err
	}
	// a local variable of the verified function that is not defined on this path: its value is arbitrary here
	if e.frame != nil && e.frame.fn != nil {
		if ty := localVarType(e.frame.fn, t.Name); ty != nil {
			return Val{e.v.Y.fresh(e.v.D, "undef_"+t.Name, e.v.sortOf(ty)), ty}, nil
		}
	}
	return Val{}, fmt.Errorf("unknown identifier %s", t.Name)
}

// allocNamed: the unique cell (Alloc) of the local variable with this name, if there is exactly one
func allocNamed(fn *ssa.Function, name string) *ssa.Alloc {
	if fn == nil {
		return nil
	}
	var found *ssa.Alloc
	for _, b := range fn.Blocks {
		for _, in := range b.Instrs {
			if a, ok := in.(*ssa.Alloc); ok && a.Comment == name {
				if found != nil {
					return nil
				}
				found = a
			}
		}
	}
	return found
}

func localVarType(fn *ssa.Function, name string) types.Type {
	for _, b := range fn.Blocks {
		for _, in := range b.Instrs {
			if d, ok := in.(*ssa.DebugRef); ok {
				if obj := d.Object(); obj != nil && obj.Name() == name {
					if d.IsAddr {
						if pt, ok := d.X.Type().Underlying().(*types.Pointer); ok {
							return pt.Elem()
						}
					}
					return d.X.Type()
				}
			}
		}
	}
	return nil
}

func (e *Env) coerceNil(a, b Val) (Val, Val) {
	if a.T == nil && b.T != nil {
		a = Val{zeroOfSort(e.v.D, b.T.Sort, b.Ty), b.Ty}
	}
	if b.T == nil && a.T != nil {
		b = Val{zeroOfSort(e.v.D, a.T.Sort, a.Ty), a.Ty}
	}
	return a, b
}

func zeroOfSort(d *Decls, s string, ty types.Type) *Term {
	if ty != nil && ty != untypedNil {
		return d.zero(ty)
	}
	switch s {
	case "Ptr":
		return tNilP
	case "Iface":
		return tNilI
	case "Fn":
		return tNilF
	case "Slice":
		return mkSlice(tNilP, intLit(0), intLit(0), intLit(0))
	}
	return mk(s, "zz_zero_"+sortTag(s))
}

func (e *Env) neutral() *Env {
	if e.mode == 0 {
		return e
	}
	c := *e
	c.mode = 0
	return &c
}

func (e *Env) evalBinary(t *ast.BinaryExpr) (Val, error) {
	if t.Op == token.LAND || t.Op == token.LOR {
		sub := e
		if t.Op == token.LOR {
			sub = e.neutral()
		}
		a, err := sub.evalBool(t.X)
		if err != nil {
			return Val{}, err
		}
		b, err := sub.evalBool(t.Y)
		if err != nil {
			return Val{}, err
		}
		if t.Op == token.LAND {
			return Val{tAnd(a, b), types.Typ[types.Bool]}, nil
		}
		return Val{tOr(a, b), types.Typ[types.Bool]}, nil
	}
	e = e.neutral()
	a, err := e.eval(t.X)
	if err != nil {
		return Val{}, err
	}
	b, err := e.eval(t.Y)
	if err != nil {
		return Val{}, err
	}
	a, b = e.coerceNil(a, b)
	if a.T == nil || b.T == nil {
		if t.Op == token.EQL {
			return Val{tTrue, types.Typ[types.Bool]}, nil
		}
		if t.Op == token.NEQ {
			return Val{tFalse, types.Typ[types.Bool]}, nil
		}
		return Val{}, fmt.Errorf("nil compared with nil")
	}
	if a.T.Sort != b.T.Sort {
		return Val{}, fmt.Errorf("sort mismatch in %s: %s vs %s", t.Op, a.T.Sort, b.T.Sort)
	}
	if a.T.Sort == "Real" {
		switch t.Op {
		case token.EQL:
			return Val{tEq(a.T, b.T), types.Typ[types.Bool]}, nil
		case token.NEQ:
			return Val{tNot(tEq(a.T, b.T)), types.Typ[types.Bool]}, nil
		case token.LSS, token.LEQ, token.GTR, token.GEQ:
			return Val{mk("Bool", t.Op.String(), a.T, b.T), types.Typ[types.Bool]}, nil
		case token.ADD, token.SUB, token.MUL, token.QUO:
			return Val{mk("Real", t.Op.String(), a.T, b.T), nil}, nil
		}
	}
	// spec equality on floats is structural (=) so NaN==NaN in specs; use fpeq() for IEEE equality
	if isFloatSort(a.T.Sort) && (t.Op == token.EQL || t.Op == token.NEQ) {
		r := tEq(a.T, b.T)
		if t.Op == token.NEQ {
			r = tNot(r)
		}
		return Val{r, types.Typ[types.Bool]}, nil
	}
	r := e.v.binop(e.st, t.Op, a.T, b.T, a.Ty, nil)
	ty := a.Ty
	if r.Sort == "Bool" {
		ty = types.Typ[types.Bool]
	}
	return Val{r, ty}, nil
}

func (e *Env) evalArgs(args []ast.Expr) ([]Val, error) {
	var out []Val
	for _, a := range args {
		v, err := e.eval(a)
		if err != nil {
			return nil, err
		}
		out = append(out, v)
	}
	return out, nil
}

func (e *Env) evalCall(c *ast.CallExpr) (Val, error) {
	boolT := types.Typ[types.Bool]
	intT := types.Typ[types.Int]
	name := ""
	if id, ok := c.Fun.(*ast.Ident); ok {
		name = id.Name
	}
	if se, ok := c.Fun.(*ast.SelectorExpr); ok {
		// pkg.macro(...) / pkg.specfun(...): spec names are global, the qualifier is documentation
		if id, ok := se.X.(*ast.Ident); ok {
			if _, isVar := e.vars[id.Name]; !isVar && !e.hasName(id.Name) && e.findPackage(id.Name) != nil {
				n := se.Sel.Name
				if _, ok := e.v.C.Macros[n]; ok {
					name = n
				} else if _, ok := e.v.C.SpecFuns[n]; ok {
					name = n
				} else if _, ok := e.v.C.GhostMaps[n]; ok {
					name = n
				}
			}
		}
	}
	switch name {
	case "visited":
		// visited(k): the running range-over-map loop of the verified function has already produced key k
		if e.frame == nil || len(e.frame.iters) == 0 {
			return Val{}, fmt.Errorf("visited(): no map iteration in progress")
		}
		k, err := e.eval(c.Args[0])
		if err != nil {
			return Val{}, err
		}
		var it *iterState
		n := 0
		for _, x := range e.frame.iters {
			if !x.isStr && x.visited != nil {
				it = x
				n++
			}
		}
		if n != 1 {
			return Val{}, fmt.Errorf("visited(): need exactly one map iterator, have %d", n)
		}
		return Val{mk("Bool", "select", it.visited, k.T), boolT}, nil
	case "visitedset":
		// visitedset(): the set of keys the running range-over-map loop has produced so far (an SMT array String -> Bool)
		it, err := e.theMapIter()
		if err != nil {
			return Val{}, err
		}
		e.v.usesSetTheory()
		return Val{relabel(it.visited, "StrSet"), nil}, nil
	case "domof", "valsof":
		// domof(m) / valsof(m): the key set / the key -> value function of a string-keyed map as mathematical objects
		m, err := e.eval(c.Args[0])
		if err != nil {
			return Val{}, err
		}
		mt, ok := e.v.substT(m.Ty).Underlying().(*types.Map)
		if !ok || e.v.sortOf(mt.Key()) != "String" {
			return Val{}, fmt.Errorf("%s() needs a string-keyed map", name)
		}
		e.v.usesSetTheory()
		dom, vals := e.v.mapHeaps(e.st, mt)
		if name == "domof" {
			empty := mk("StrSet", "((as const (Array String Bool)) false)")
			return Val{tIte(tEq(m.T, tNilP), empty, relabel(dom.read(m.T), "StrSet")), nil}, nil
		}
		if e.v.sortOf(mt.Elem()) != "Iface" {
			return Val{}, fmt.Errorf("valsof() needs map[string]any")
		}
		return Val{relabel(vals.read(m.T), "StrVals"), nil}, nil
	case "subset":
		a, err := e.eval(c.Args[0])
		if err != nil {
			return Val{}, err
		}
		b, err := e.eval(c.Args[1])
		if err != nil {
			return Val{}, err
		}
		e.v.usesSetTheory()
		return Val{tSubset(a.T, b.T), boolT}, nil
	case "strset", "strnodup":
		// strset(s): the set of the elements of a []string; strnodup(s): no element occurs twice. Both are abstract
		// functions of (string heap, slice header); their meaning is fixed by the facts the engine states at append
		// and for empty slices, and by the contract of sort.Strings.
		a, err := e.eval(c.Args[0])
		if err != nil {
			return Val{}, err
		}
		if a.T == nil || a.T.Sort != "Slice" {
			return Val{}, fmt.Errorf("%s() needs a []string", name)
		}
		h := e.v.heapFor(e.st, "String")
		e.v.usesSetTheory()
		if name == "strset" {
			return Val{mk("StrSet", "zz_sset", h.arrayTerm(), a.T), nil}, nil
		}
		return Val{mk("Bool", "zz_snodup", h.arrayTerm(), a.T), boolT}, nil
	case "cur":
		// cur(x): the current value of the local variable / spilled parameter x (a bare parameter name denotes its entry value)
		id, ok := c.Args[0].(*ast.Ident)
		if !ok || e.frame == nil {
			return Val{}, fmt.Errorf("cur() needs a local variable name")
		}
		if nr, ok := e.frame.names[id.Name]; ok {
			if val, ok := e.frame.vals[nr.val]; ok {
				if nr.isAddr {
					et := nr.val.Type().Underlying().(*types.Pointer).Elem()
					return Val{e.v.load(e.st, val, et), et}, nil
				}
				return Val{val, nr.val.Type()}, nil
			}
		}
		return e.eval(c.Args[0])
	case "old":
		if e.old == nil {
			return Val{}, fmt.Errorf("old() not available here")
		}
		c2 := *e
		c2.st = e.old
		return c2.eval(c.Args[0])
	case "zz_imp":
		a, err := e.neutral().evalBool(c.Args[0])
		if err != nil {
			return Val{}, err
		}
		ec := e
		if e.mode == 1 {
			// a quantified fact registered while assuming the consequent holds only under the antecedent
			c2 := *e
			if c2.guard == nil {
				c2.guard = a
			} else {
				c2.guard = tAnd(c2.guard, a)
			}
			ec = &c2
		}
		b, err := ec.evalBool(c.Args[1])
		if err != nil {
			return Val{}, err
		}
		return Val{tImp(a, b), boolT}, nil
	case "zz_iff":
		a, err := e.neutral().evalBool(c.Args[0])
		if err != nil {
			return Val{}, err
		}
		b, err := e.neutral().evalBool(c.Args[1])
		if err != nil {
			return Val{}, err
		}
		return Val{tEq(a, b), boolT}, nil
	case "ite":
		cc, err := e.neutral().evalBool(c.Args[0])
		if err != nil {
			return Val{}, err
		}
		a, err := e.neutral().eval(c.Args[1])
		if err != nil {
			return Val{}, err
		}
		b, err := e.neutral().eval(c.Args[2])
		if err != nil {
			return Val{}, err
		}
		a, b = e.coerceNil(a, b)
		return Val{tIte(cc, a.T, b.T), a.Ty}, nil
	case "len", "cap":
		a, err := e.eval(c.Args[0])
		if err != nil {
			return Val{}, err
		}
		switch a.T.Sort {
		case "Slice":
			if name == "len" {
				return Val{slLen(a.T), intT}, nil
			}
			return Val{slCap(a.T), intT}, nil
		case "String":
			return Val{mk("Int", "str.len", a.T), intT}, nil
		default:
			if strings.HasPrefix(a.T.Sort, "TP_") {
				fn := "zz_len_" + sortTag(a.T.Sort)
				e.v.D.declFun(fn, []string{a.T.Sort}, "Int")
				return Val{mk("Int", fn, a.T), intT}, nil
			}
		case "Ptr":
			if mt, ok := e.v.substT(a.Ty).Underlying().(*types.Map); ok {
				return Val{e.v.mapLen(e.st, a.T, mt), intT}, nil
			}
		}
		return Val{}, fmt.Errorf("len of %s", a.T.Sort)
	case "istype":
		a, err := e.eval(c.Args[0])
		if err != nil {
			return Val{}, err
		}
		ty, err := e.resolveType(c.Args[1])
		if err != nil {
			return Val{}, err
		}
		return Val{e.v.dynIs(a.T, ty), boolT}, nil
	case "implements":
		a, err := e.eval(c.Args[0])
		if err != nil {
			return Val{}, err
		}
		ty, err := e.resolveType(c.Args[1])
		if err != nil {
			return Val{}, err
		}
		return Val{e.v.implementsPred(e.st, a.T, ty), boolT}, nil
	case "tid":
		ty, err := e.resolveType(c.Args[0])
		if err != nil {
			return Val{}, err
		}
		return Val{e.v.D.typeID(e.v.substT(ty)), intT}, nil
	case "clotarg":
		// clotarg(f, i): the type id of the i-th type argument the generic function enclosing closure f was instantiated with
		a, err := e.eval(c.Args[0])
		if err != nil {
			return Val{}, err
		}
		idx, err := e.eval(c.Args[1])
		if err != nil {
			return Val{}, err
		}
		n, ok := isIntLit(idx.T)
		if !ok {
			return Val{}, fmt.Errorf("clotarg: index must be a literal")
		}
		cf := fmt.Sprintf("zz_clotarg_%d", n)
		e.v.D.declFun(cf, []string{"Fn"}, "Int")
		return Val{mk("Int", cf, a.T), intT}, nil
	case "dyn":
		a, err := e.eval(c.Args[0])
		if err != nil {
			return Val{}, err
		}
		return Val{mk("Int", "zz_dyn", a.T), intT}, nil
	case "box":
		a, err := e.eval(c.Args[0])
		if err != nil {
			return Val{}, err
		}
		return Val{e.v.box(e.st, a.T, a.Ty), types.NewInterfaceType(nil, nil)}, nil
	case "isnew":
		a, err := e.eval(c.Args[0])
		if err != nil {
			return Val{}, err
		}
		if a.T.Sort == "Slice" {
			return Val{tFresh(slBase(a.T)), boolT}, nil
		}
		return Val{tFresh(a.T), boolT}, nil
	case "ownalloc":
		// ownalloc(x): x points into (a slice: is backed by) an object this function itself allocated - stronger than
		// isnew(), which also accepts objects a callee reported as fresh
		a, err := e.eval(c.Args[0])
		if err != nil {
			return Val{}, err
		}
		pt := a.T
		if pt.Sort == "Slice" {
			pt = slBase(pt)
		}
		return Val{mk("Bool", "zz_isnew", pt), boolT}, nil
	case "has":
		m, err := e.eval(c.Args[0])
		if err != nil {
			return Val{}, err
		}
		k, err := e.eval(c.Args[1])
		if err != nil {
			return Val{}, err
		}
		mt, ok := e.v.substT(m.Ty).Underlying().(*types.Map)
		if !ok {
			return Val{}, fmt.Errorf("has() on non-map")
		}
		dom, _ := e.v.mapHeaps(e.st, mt)
		return Val{tAnd(tNot(tEq(m.T, tNilP)), mk("Bool", "select", dom.read(m.T), k.T)), boolT}, nil
	case "onlykey":
		// onlykey(m, k): the map m has exactly the one key k (quantifier-free: its domain array is the singleton {k})
		m, err := e.eval(c.Args[0])
		if err != nil {
			return Val{}, err
		}
		k, err := e.eval(c.Args[1])
		if err != nil {
			return Val{}, err
		}
		mt, ok := e.v.substT(m.Ty).Underlying().(*types.Map)
		if !ok {
			return Val{}, fmt.Errorf("onlykey() on non-map")
		}
		dom, _ := e.v.mapHeaps(e.st, mt)
		ks := e.v.sortOf(mt.Key())
		empty := mk("(Array "+ks+" Bool)", "((as const (Array "+ks+" Bool)) false)")
		return Val{tAnd(tNot(tEq(m.T, tNilP)), tEq(dom.read(m.T), mk(empty.Sort, "store", empty, k.T, tTrue))), boolT}, nil
	case "forall", "exists":
		// forall(i, lo, hi, body)  integer range   |  forall(k, Sort, body)
		id, ok := c.Args[0].(*ast.Ident)
		if !ok {
			return Val{}, fmt.Errorf("%s: first arg must be identifier", name)
		}
		e.qn++
		qv := fmt.Sprintf("zz_q%d_%s", e.qn, id.Name)
		c2 := e.child()
		c2.qn = e.qn
		if len(c.Args) == 4 {
			lo, err := e.eval(c.Args[1])
			if err != nil {
				return Val{}, err
			}
			hi, err := e.eval(c.Args[2])
			if err != nil {
				return Val{}, err
			}
			q := mk("Int", qv)
			if name == "forall" && e.mode == 2 {
				// proving a universally quantified goal: skolemise and instantiate the known quantified facts there
				sk := e.v.Y.fresh(e.v.D, "sk_"+id.Name, "Int")
				for _, qf := range e.st.qfacts {
					if qf.sort == "Int" {
						e.st.assume(qf.inst(sk))
					}
				}
				c2.vars[id.Name] = Val{sk, intT}
				c2.mode = 0
				body, err := c2.evalBool(c.Args[3])
				if err != nil {
					return Val{}, err
				}
				return Val{tImp(tAnd(tCmp("<=", lo.T, sk), tCmp("<", sk, hi.T)), body), boolT}, nil
			}
			if name == "forall" && e.mode == 1 {
				snap := e.st.snapshot()
				base := e.child()
				base.st = snap
				if len(snap.frames) > 0 && e.frame != nil {
					base.frame = snap.frames[0]
				}
				base.mode = 0
				bodyX := c.Args[3]
				varName := id.Name
				loT, hiT := lo.T, hi.T
				grd := e.guard
				e.st.qfacts = append(e.st.qfacts, qfact{sort: "Int", lo: loT, hi: hiT, guard: grd, inst: func(idx *Term) *Term {
					b2 := base.child()
					b2.vars[varName] = Val{idx, intT}
					body, err := b2.evalBool(bodyX)
					if err != nil {
						return tTrue
					}
					if grd != nil {
						return tImp(tAnd(grd, tCmp("<=", loT, idx), tCmp("<", idx, hiT)), body)
					}
					return tImp(tAnd(tCmp("<=", loT, idx), tCmp("<", idx, hiT)), body)
				}})
			}
			c2.mode = 0
			c2.vars[id.Name] = Val{q, intT}
			body, err := c2.evalBool(c.Args[3])
			if err != nil {
				return Val{}, err
			}
			rng := tAnd(tCmp("<=", lo.T, q), tCmp("<", q, hi.T))
			if name == "exists" && e.mode == 2 {
				// proving an existential: offer the index terms the execution touched as witnesses
				alts := []*Term{mk("Bool", "exists (("+qv+" Int))", tAnd(rng, body))}
				for _, w := range e.st.idxTerms {
					c3 := e.child()
					c3.mode = 0
					c3.vars[id.Name] = Val{w, intT}
					if b3, err := c3.evalBool(c.Args[3]); err == nil {
						alts = append(alts, tAnd(tCmp("<=", lo.T, w), tCmp("<", w, hi.T), b3))
					}
				}
				return Val{tOr(alts...), boolT}, nil
			}
			if name == "forall" {
				return Val{mk("Bool", "forall (("+qv+" Int))", tImp(rng, body)), boolT}, nil
			}
			return Val{mk("Bool", "exists (("+qv+" Int))", tAnd(rng, body)), boolT}, nil
		}
		if len(c.Args) == 3 {
			sortName := ""
			var qty types.Type
			if sid, ok := c.Args[1].(*ast.Ident); ok && isSpecSort(sid.Name) {
				sortName = sid.Name
				switch sortName {
				case "String":
					qty = types.Typ[types.String]
				case "Int":
					qty = types.Typ[types.Int]
				case "Bool":
					qty = types.Typ[types.Bool]
				}
			} else {
				ty, err := e.resolveType(c.Args[1])
				if err != nil {
					return Val{}, err
				}
				qty = ty
				sortName = e.v.sortOf(ty)
			}
			q := mk(sortName, qv)
			if name == "forall" && e.mode == 2 {
				sk := e.v.Y.fresh(e.v.D, "sk_"+id.Name, sortName)
				for _, qf := range e.st.qfacts {
					if qf.sort == sortName {
						e.st.assume(qf.inst(sk))
					}
				}
				c2.vars[id.Name] = Val{sk, qty}
				c2.mode = 0
				body, err := c2.evalBool(c.Args[2])
				if err != nil {
					return Val{}, err
				}
				return Val{body, boolT}, nil
			}
			if name == "forall" && e.mode == 1 {
				snap := e.st.snapshot()
				base := e.child()
				base.st = snap
				if len(snap.frames) > 0 && e.frame != nil {
					base.frame = snap.frames[0]
				}
				base.mode = 0
				bodyX := c.Args[2]
				varName := id.Name
				grd := e.guard
				e.st.qfacts = append(e.st.qfacts, qfact{sort: sortName, inst: func(idx *Term) *Term {
					b2 := base.child()
					b2.vars[varName] = Val{idx, qty}
					body, err := b2.evalBool(bodyX)
					if err != nil {
						return tTrue
					}
					if grd != nil {
						return tImp(grd, body)
					}
					return body
				}})
				if sortName == "String" {
					// quantifiers over strings make the solvers diverge: the fact is used only through the
					// engine's own instantiation (at map-range keys, lookups and skolem constants)
					return Val{tTrue, boolT}, nil
				}
			}
			c2.mode = 0
			c2.vars[id.Name] = Val{q, qty}
			body, err := c2.evalBool(c.Args[2])
			if err != nil {
				return Val{}, err
			}
			return Val{mk("Bool", name+" (("+qv+" "+sortName+"))", body), boolT}, nil
		}
		return Val{}, fmt.Errorf("%s: bad arity", name)
	case "arrbase":
		a, err := e.eval(c.Args[0])
		if err != nil {
			return Val{}, err
		}
		if a.T.Sort != "Slice" {
			return Val{}, fmt.Errorf("arrbase() needs a slice")
		}
		return Val{slBase(a.T), nil}, nil
	case "userptr":
		// the pointer (or boxed pointer) does not point into one of zog's own objects
		a, err := e.eval(c.Args[0])
		if err != nil {
			return Val{}, err
		}
		pt := a.T
		if pt.Sort == "Iface" {
			pt = mk("Ptr", e.v.D.unboxFn("Ptr"), pt)
		}
		e.v.D.declFun("zz_userptr", []string{"Ptr"}, "Bool")
		return Val{mk("Bool", "zz_userptr", pt), boolT}, nil
	case "isclo", "captured":
		// isclo(f, "pkg.Func$1"): f is a closure of that function literal; captured(f, "pkg.Func$1", i): address of its i-th captured variable
		f, err := e.eval(c.Args[0])
		if err != nil {
			return Val{}, err
		}
		lit, ok := c.Args[1].(*ast.BasicLit)
		if !ok {
			return Val{}, fmt.Errorf("%s: function name must be a string literal", name)
		}
		qn, _ := strconv.Unquote(lit.Value)
		var target *ssa.Function
		for k, fn := range e.v.P.Funcs {
			i := strings.LastIndex(k, "::")
			pk := k[:i]
			if j := strings.LastIndex(pk, "/"); j >= 0 {
				pk = pk[j+1:]
			}
			if pk+"."+k[i+2:] == qn {
				target = fn
			}
		}
		if target == nil {
			return Val{}, fmt.Errorf("%s: unknown function %s", name, qn)
		}
		e.v.D.declFun("zz_cloid", []string{"Fn"}, "Int")
		if name == "isclo" {
			return Val{tEq(mk("Int", "zz_cloid", f.T), intLit(int64(cloID(target)))), boolT}, nil
		}
		idx, err := e.eval(c.Args[2])
		if err != nil {
			return Val{}, err
		}
		n, ok := isIntLit(idx.T)
		if !ok || int(n) >= len(target.FreeVars) {
			return Val{}, fmt.Errorf("captured: bad index")
		}
		cf := fmt.Sprintf("zz_capcell_%d", n)
		e.v.D.declFun(cf, []string{"Fn"}, "Ptr")
		cell := mk("Ptr", cf, f.T)
		// captured variables live in their own cells: never inside a struct or a backing array
		if !mentionsBound(cell) {
			e.st.assume(tAnd(tNot(mk("Bool", "(_ is zz_fld)", cell)), tNot(mk("Bool", "(_ is zz_elem)", cell)), tNot(tEq(cell, tNilP))))
		}
		return Val{cell, e.foreignType(target, target.FreeVars[n].Type())}, nil
	case "fromcode":
		a, err := e.eval(c.Args[0])
		if err != nil {
			return Val{}, err
		}
		return Val{mk("String", "str.from_code", a.T), types.Typ[types.String]}, nil
	case "idigits":
		// decimal digits of a non-negative integer (SMT-LIB str.from_int)
		a, err := e.eval(c.Args[0])
		if err != nil {
			return Val{}, err
		}
		return Val{mk("String", "str.from_int", a.T), types.Typ[types.String]}, nil
	case "strlen":
		a, err := e.eval(c.Args[0])
		if err != nil {
			return Val{}, err
		}
		return Val{mk("Int", "str.len", a.T), intT}, nil
	case "prefixof", "suffixof", "contains", "concat", "trimprefix":
		a, err := e.eval(c.Args[0])
		if err != nil {
			return Val{}, err
		}
		b, err := e.eval(c.Args[1])
		if err != nil {
			return Val{}, err
		}
		switch name {
		case "prefixof":
			return Val{mk("Bool", "str.prefixof", a.T, b.T), boolT}, nil
		case "suffixof":
			return Val{mk("Bool", "str.suffixof", a.T, b.T), boolT}, nil
		case "contains":
			return Val{mk("Bool", "str.contains", a.T, b.T), boolT}, nil
		case "concat":
			return Val{mk("String", "str.++", a.T, b.T), types.Typ[types.String]}, nil
		}
	case "substr":
		vs, err := e.evalArgs(c.Args)
		if err != nil {
			return Val{}, err
		}
		return Val{mk("String", "str.substr", vs[0].T, vs[1].T, vs[2].T), types.Typ[types.String]}, nil
	case "replaceall":
		vs, err := e.evalArgs(c.Args)
		if err != nil {
			return Val{}, err
		}
		// uninterpreted (the proofs need only congruence; solvers give up on symbolic str.replace_all)
		e.v.D.declFun("zz_replaceall", []string{"String", "String", "String"}, "String")
		return Val{mk("String", "zz_replaceall", vs[0].T, vs[1].T, vs[2].T), types.Typ[types.String]}, nil
	case "sreplaceall":
		// the SMT-LIB function itself, for ground (catalogue) facts
		vs, err := e.evalArgs(c.Args)
		if err != nil {
			return Val{}, err
		}
		return Val{mk("String", "str.replace_all", vs[0].T, vs[1].T, vs[2].T), types.Typ[types.String]}, nil
	case "isnan", "isinf", "isneg":
		a, err := e.eval(c.Args[0])
		if err != nil {
			return Val{}, err
		}
		op := map[string]string{"isnan": "fp.isNaN", "isinf": "fp.isInfinite", "isneg": "fp.isNegative"}[name]
		return Val{mk("Bool", op, a.T), boolT}, nil
	case "fpeq":
		vs, err := e.evalArgs(c.Args)
		if err != nil {
			return Val{}, err
		}
		return Val{mk("Bool", "fp.eq", vs[0].T, vs[1].T), boolT}, nil
	case "real":
		a, err := e.eval(c.Args[0])
		if err != nil {
			return Val{}, err
		}
		if a.T.Sort == "Int" {
			return Val{mk("Real", "to_real", a.T), nil}, nil
		}
		if isFloatSort(a.T.Sort) {
			return Val{mk("Real", "fp.to_real", a.T), nil}, nil
		}
		return Val{}, fmt.Errorf("real() of %s", a.T.Sort)
	case "trunc":
		a, err := e.eval(c.Args[0])
		if err != nil {
			return Val{}, err
		}
		if a.T.Sort != "Real" {
			return Val{}, fmt.Errorf("trunc() needs Real")
		}
		tr := mk("Int", "ite", mk("Bool", ">=", a.T, mk("Real", "0.0")), mk("Int", "to_int", a.T), mk("Int", "-", mk("Int", "to_int", mk("Real", "-", a.T))))
		return Val{tr, intT}, nil
	case "ftrunc":
		a, err := e.eval(c.Args[0])
		if err != nil {
			return Val{}, err
		}
		if !isFloatSort(a.T.Sort) {
			return Val{}, fmt.Errorf("ftrunc() needs a float")
		}
		return Val{floatTrunc(a.T), intT}, nil
	case "finrange":
		// finrange(x, T): the float x is a number whose truncation fits the integer type T
		a, err := e.eval(c.Args[0])
		if err != nil {
			return Val{}, err
		}
		ty, err := e.resolveType(c.Args[1])
		if err != nil {
			return Val{}, err
		}
		b, ok := ty.Underlying().(*types.Basic)
		if !ok {
			return Val{}, fmt.Errorf("finrange: integer type expected")
		}
		lo, hi, ok := intRange(b)
		if !ok {
			return Val{}, fmt.Errorf("finrange: integer type expected")
		}
		return Val{floatInRange(a.T, lo, hi), boolT}, nil
	case "round32":
		a, err := e.eval(c.Args[0])
		if err != nil {
			return Val{}, err
		}
		return Val{mk(sortF32, "(_ to_fp 8 24)", mk("RoundingMode", "RNE"), a.T), types.Typ[types.Float32]}, nil
	case "unchanged":
		cur, err := e.eval(c.Args[0])
		if err != nil {
			return Val{}, err
		}
		c2 := *e
		c2.st = e.old
		if e.old == nil {
			return Val{}, fmt.Errorf("unchanged() needs old state")
		}
		o, err := c2.eval(c.Args[0])
		if err != nil {
			return Val{}, err
		}
		return Val{tEq(cur.T, o.T), boolT}, nil
	}
	// spec macro
	if m, ok := e.v.C.Macros[name]; ok && name != "" {
		if len(m.Params) != len(c.Args) {
			return Val{}, fmt.Errorf("macro %s arity", name)
		}
		vs, err := e.evalArgs(c.Args)
		if err != nil {
			return Val{}, err
		}
		c2 := e.child()
		for i, p := range m.Params {
			c2.vars[p] = vs[i]
		}
		if m.Pkg != "" {
			if pk := e.v.typesPkg(m.Pkg); pk != nil {
				c2.pkg = pk
			}
		}
		return c2.eval(m.Body)
	}
	// ghost map
	if g, ok := e.v.C.GhostMaps[name]; ok && name != "" {
		a, err := e.eval(c.Args[0])
		if err != nil {
			return Val{}, err
		}
		h := e.v.customHeap(e.st, "g_"+g.Name, a.T.Sort, g.ElSort)
		return Val{h.read(a.T), nil}, nil
	}
	// spec function
	if sf, ok := e.v.C.SpecFuns[name]; ok && name != "" {
		vs, err := e.evalArgs(c.Args)
		if err != nil {
			return Val{}, err
		}
		if len(vs) != len(sf.Args) {
			return Val{}, fmt.Errorf("spec function %s arity", name)
		}
		var ts []*Term
		for i, x := range vs {
			if x.T == nil {
				x.T = zeroOfSort(e.v.D, sf.Args[i], nil)
			}
			if x.T.Sort != sf.Args[i] {
				return Val{}, fmt.Errorf("spec function %s arg %d: sort %s, want %s", name, i, x.T.Sort, sf.Args[i])
			}
			ts = append(ts, x.T)
		}
		e.v.D.declFun("zz_"+name, sf.Args, sf.Ret)
		var rty types.Type
		if sf.GoType != "" {
			if tx, err := parser.ParseExpr(sf.GoType); err == nil {
				c2 := *e
				if pk := e.v.typesPkg(sf.Pkg); pk != nil {
					c2.pkg = pk
				}
				if ty, err := c2.resolveType(tx); err == nil {
					rty = ty
				}
			}
		}
		if rty != nil {
		} else if sf.Ret == "Bool" {
			rty = boolT
		} else if sf.Ret == "Int" {
			rty = intT
		} else if sf.Ret == "String" {
			rty = types.Typ[types.String]
		}
		if len(ts) == 0 {
			return Val{mk(sf.Ret, "zz_"+name), rty}, nil
		}
		return Val{mk(sf.Ret, "zz_"+name, ts...), rty}, nil
	}
	// conversion T(x)
	if len(c.Args) == 1 {
		if ty, err := e.resolveType(c.Fun); err == nil {
			a, err := e.eval(c.Args[0])
			if err != nil {
				return Val{}, err
			}
			if a.T == nil {
				return Val{e.v.D.zero(e.v.substT(ty)), ty}, nil
			}
			return Val{e.v.convert(e.st, a.T, a.Ty, ty, nil), ty}, nil
		}
	}
	return Val{}, fmt.Errorf("unknown function %s in contract", exprStr(c.Fun))
}

// foreignType: a type taken from another generic function (the type of a variable a closure of `owner` captured)
// may mention that function's type parameters. Type parameters are identified by name in sorts, type ids and
// substitutions, so a foreign `T` would be taken for the `T` of the function under verification. The foreign
// parameters are marked: they get type ids of their own and no cell-type facts are stated through them.
func (e *Env) foreignType(owner *ssa.Function, ty types.Type) types.Type {
	if !hasTypeParam(ty) {
		return ty
	}
	root := func(f *ssa.Function) *ssa.Function {
		f = originOf(f)
		for f != nil && f.Parent() != nil {
			f = originOf(f.Parent())
		}
		return f
	}
	or := root(owner)
	if e.frame != nil && e.frame.fn != nil && root(e.frame.fn) == or {
		return ty
	}
	if len(e.v.subst) > 0 {
		// a callee's contract is being applied with its type parameters substituted: nothing foreign is left
		return ty
	}
	if tps := or.TypeParams(); tps != nil {
		for i := 0; i < tps.Len(); i++ {
			e.v.D.foreign[tps.At(i)] = true
		}
	}
	return ty
}

// theMapIter returns the single range-over-map iterator of the frame under verification.
func (e *Env) theMapIter() (*iterState, error) {
	if e.frame == nil || len(e.frame.iters) == 0 {
		return nil, fmt.Errorf("no map iteration in progress")
	}
	var it *iterState
	n := 0
	for _, x := range e.frame.iters {
		if !x.isStr && x.visited != nil {
			it = x
			n++
		}
	}
	if n != 1 {
		return nil, fmt.Errorf("need exactly one map iterator, have %d", n)
	}
	return it, nil
}

func relabel(t *Term, sort string) *Term {
	c := *t
	c.Sort = sort
	return &c
}

// tSubset: a is a subset of b, for Bool-valued arrays (z3's array map combinator; cvc5 rejects it and drops out of the race)
func tSubset(a, b *Term) *Term {
	return tEq(a, mk(a.Sort, "(_ map and)", a, b))
}

// usesSetTheory declares the string-set vocabulary: sets and value maps of string-keyed maps, the set / no-duplicate
// abstraction of []string contents, and the canonical (sorted) enumeration sslen / ssnth of a finite set.
func (v *Verifier) usesSetTheory() {
	if v.D.seen["raw:strset-theory"] {
		return
	}
	v.D.seen["raw:strset-theory"] = true
	v.D.declFun("zz_sset", []string{"(Array Ptr String)", "Slice"}, "StrSet")
	v.D.declFun("zz_snodup", []string{"(Array Ptr String)", "Slice"}, "Bool")
	v.D.add("raw:strset-frame", `(assert (forall ((h (Array Ptr String)) (p Ptr) (x String) (s Slice)) (! (=> (not (and ((_ is zz_elem) p) (= (zz_elem_base p) (zz_sl_base s)))) (and (= (zz_sset (store h p x) s) (zz_sset h s)) (= (zz_snodup (store h p x) s) (zz_snodup h s)))) :pattern ((zz_sset (store h p x) s)) :pattern ((zz_snodup (store h p x) s)))))`)
	v.D.add("raw:strset-empty", `(assert (forall ((h (Array Ptr String)) (s Slice)) (! (=> (= (zz_sl_len s) 0) (and (= (zz_sset h s) ((as const (Array String Bool)) false)) (zz_snodup h s))) :pattern ((zz_sset h s)) :pattern ((zz_snodup h s)))))`)
	v.setTheory = true
}

func isSpecSort(n string) bool {
	switch n {
	case "Int", "Bool", "String", "Ptr", "Iface", "Fn", "Slice", "Real", "StrSet", "StrVals":
		return true
	}
	return strings.HasPrefix(n, "Spec")
}

func exprStr(x ast.Expr) string {
	var sb strings.Builder
	ast.Inspect(x, func(n ast.Node) bool {
		if id, ok := n.(*ast.Ident); ok {
			sb.WriteString(id.Name)
			sb.WriteByte(' ')
		}
		return true
	})
	return strings.TrimSpace(sb.String())
}

// ---- modifies locations

type modLoc struct {
	guard *Term
	kind  string // exact, elems, key, heap, ghostvar, anyelems
	key   string
	addr  *Term
	base  *Term
	sort  string
	typ   types.Type
	gname string
}

func (e *Env) evalLocs(x ast.Expr) ([]modLoc, error) {
	if id, ok := x.(*ast.Ident); ok {
		if id.Name == "heap" {
			return []modLoc{{kind: "heap"}}, nil
		}
		if id.Name == "userdata" {
			return []modLoc{{kind: "userdata"}}, nil
		}
		if _, ok := e.v.C.GhostVars[id.Name]; ok {
			return []modLoc{{kind: "ghostvar", gname: id.Name}}, nil
		}
	}
	if c, ok := x.(*ast.CallExpr); ok {
		if se, ok := c.Fun.(*ast.SelectorExpr); ok {
			if pid, ok := se.X.(*ast.Ident); ok && e.findPackage(pid.Name) != nil {
				if _, isVar := e.vars[pid.Name]; !isVar {
					c = &ast.CallExpr{Fun: se.Sel, Args: c.Args}
				}
			}
		}
		if id, ok := c.Fun.(*ast.Ident); ok {
			switch id.Name {
			case "when":
				g, err := e.evalBool(c.Args[0])
				if err != nil {
					return nil, err
				}
				locs, err := e.evalLocs(c.Args[1])
				if err != nil {
					return nil, err
				}
				for i := range locs {
					if locs[i].guard != nil {
						locs[i].guard = tAnd(g, locs[i].guard)
					} else {
						locs[i].guard = g
					}
				}
				return locs, nil
			case "locs":
				var out []modLoc
				for _, a := range c.Args {
					ls, err := e.evalLocs(a)
					if err != nil {
						return nil, err
					}
					out = append(out, ls...)
				}
				return out, nil
			case "anyfield":
				// anyfield(T, f): field f of every object of struct type T
				ty, err := e.resolveType(c.Args[0])
				if err != nil {
					return nil, err
				}
				fid, ok := c.Args[1].(*ast.Ident)
				if !ok {
					return nil, fmt.Errorf("anyfield(T, field)")
				}
				path, tys, ok := findField(ty, fid.Name)
				if !ok || len(path) != 1 {
					return nil, fmt.Errorf("anyfield: no direct field %s", fid.Name)
				}
				sn := e.v.sortOf(ty)
				id := e.v.D.structBase[sn] + path[0]
				fs := e.v.sortOf(tys[0])
				return []modLoc{{kind: "anyfield", key: heapKeyForSort(fs), sort: fs, addr: intLit(int64(id))}}, nil
			case "valueof":
				// the value a boxed pointer points to: precise when the box is syntactic, otherwise under()
				p, err := e.eval(c.Args[0])
				if err != nil {
					return nil, err
				}
				if strings.HasPrefix(p.T.Op, "zz_box_Ptr") && len(p.T.Args) == 2 {
					if ty := e.v.D.typeOfID(p.T.Args[0]); ty != nil {
						if pt, ok := ty.Underlying().(*types.Pointer); ok {
							var out []modLoc
							for _, l := range e.v.leaves(p.T.Args[1], pt.Elem()) {
								out = append(out, modLoc{kind: "exact", key: heapKeyForSort(l.sort), addr: l.addr, sort: l.sort, typ: l.typ})
							}
							return out, nil
						}
					}
				}
				// unknown pointee: any user data may be rewritten (zog's own objects are not user data)
				return []modLoc{{kind: "userdata"}}, nil
			case "under":
				p, err := e.eval(c.Args[0])
				if err != nil {
					return nil, err
				}
				pt := p.T
				if pt.Sort == "Iface" {
					pt = mk("Ptr", e.v.D.unboxFn("Ptr"), pt)
				}
				return []modLoc{{kind: "under", base: pt}}, nil
			case "anyelems":
				if sid, ok := c.Args[0].(*ast.Ident); ok {
					return []modLoc{{kind: "anyelems", key: heapKeyForSort(sid.Name), sort: sid.Name}}, nil
				}
			case "anyinternal":
				// anyinternal(Sort): every field of that sort inside objects of the module's own struct types
				if sid, ok := c.Args[0].(*ast.Ident); ok {
					return []modLoc{{kind: "anyinternal", key: heapKeyForSort(sid.Name), sort: sid.Name}}, nil
				}
			case "all":
				p, err := e.eval(c.Args[0])
				if err != nil {
					return nil, err
				}
				pt, ok := e.v.substT(p.Ty).Underlying().(*types.Pointer)
				if !ok {
					return nil, fmt.Errorf("all() needs pointer")
				}
				var out []modLoc
				for _, l := range e.v.leaves(p.T, pt.Elem()) {
					out = append(out, modLoc{kind: "exact", key: heapKeyForSort(l.sort), addr: l.addr, sort: l.sort, typ: l.typ})
				}
				return out, nil
			case "elems":
				s, err := e.eval(c.Args[0])
				if err != nil {
					return nil, err
				}
				sl, ok := e.v.substT(s.Ty).Underlying().(*types.Slice)
				if !ok {
					return nil, fmt.Errorf("elems() needs slice")
				}
				var out []modLoc
				seen := map[string]bool{}
				for _, l := range e.v.leaves(pElem(slBase(s.T), intLit(0)), sl.Elem()) {
					if !seen[l.sort] {
						seen[l.sort] = true
						out = append(out, modLoc{kind: "elems", key: heapKeyForSort(l.sort), base: slBase(s.T), sort: l.sort})
					}
				}
				return out, nil
			case "mapof":
				m, err := e.eval(c.Args[0])
				if err != nil {
					return nil, err
				}
				mt, ok := e.v.substT(m.Ty).Underlying().(*types.Map)
				if !ok {
					return nil, fmt.Errorf("mapof() needs map")
				}
				dom, val := e.v.mapHeaps(e.st, mt)
				nn := tNot(tEq(m.T, tNilP))
				return []modLoc{{kind: "exact", key: dom.Key, addr: m.T, sort: dom.ElSort, guard: nn}, {kind: "exact", key: val.Key, addr: m.T, sort: val.ElSort, guard: nn}}, nil
			case "mapsof":
				ty, err := e.resolveType(c.Args[0])
				if err != nil {
					return nil, err
				}
				mt, ok := e.v.substT(ty).Underlying().(*types.Map)
				if !ok {
					return nil, fmt.Errorf("mapsof() needs a map type")
				}
				dom, val := e.v.mapHeaps(e.st, mt)
				return []modLoc{{kind: "key", key: dom.Key, sort: dom.ElSort}, {kind: "key", key: val.Key, sort: val.ElSort}}, nil
			case "keyof":
				// keyof(Sort): the whole heap component of a sort
				if sid, ok := c.Args[0].(*ast.Ident); ok {
					return []modLoc{{kind: "key", key: heapKeyForSort(sid.Name), sort: sid.Name}}, nil
				}
			}
			if g, ok := e.v.C.GhostMaps[id.Name]; ok {
				a, err := e.eval(c.Args[0])
				if err != nil {
					return nil, err
				}
				e.v.customHeap(e.st, "g_"+g.Name, a.T.Sort, g.ElSort)
				return []modLoc{{kind: "exact", key: "g_" + g.Name, addr: a.T, sort: g.ElSort}}, nil
			}
			if m, ok := e.v.C.Macros[id.Name]; ok {
				vs, err := e.evalArgs(c.Args)
				if err != nil {
					return nil, err
				}
				c2 := e.child()
				for i, p := range m.Params {
					c2.vars[p] = vs[i]
				}
				if pk := e.v.typesPkg(m.Pkg); pk != nil {
					c2.pkg = pk
				}
				return c2.evalLocs(m.Body)
			}
		}
	}
	a, ty, err := e.evalAddr(x)
	if err != nil {
		return nil, err
	}
	var out []modLoc
	for _, l := range e.v.leaves(a, ty) {
		out = append(out, modLoc{kind: "exact", key: heapKeyForSort(l.sort), addr: l.addr, sort: l.sort, typ: l.typ})
	}
	return out, nil
}
