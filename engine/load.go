package main

import (
	"fmt"
	"go/types"
	"os"
	"sort"
	"strings"

	"golang.org/x/tools/go/packages"
	"golang.org/x/tools/go/ssa"
	"golang.org/x/tools/go/ssa/ssautil"
)

type Program struct {
	Repo    string
	ModPath string
	Pkgs    []*packages.Package
	Prog    *ssa.Program
	SSAPkgs map[string]*ssa.Package  // by import path
	Funcs   map[string]*ssa.Function // "pkgpath::name"
}

func loadProgram(repo string) (*Program, error) {
	cfg := &packages.Config{
		Mode:       packages.LoadAllSyntax,
		Dir:        repo,
		BuildFlags: []string{"-tags=verif", "-mod=mod"},
		Env:        append(os.Environ(), "GOFLAGS=-mod=mod", "GOPROXY=off", "GOSUMDB=off", "GOTOOLCHAIN=local"),
		Tests:      false,
	}
	pkgs, err := packages.Load(cfg, "./...")
	if err != nil {
		return nil, err
	}
	nerr := 0
	packages.Visit(pkgs, nil, func(p *packages.Package) {
		for _, e := range p.Errors {
			fmt.Fprintln(os.Stderr, "load error:", e)
			nerr++
		}
	})
	if nerr > 0 {
		return nil, fmt.Errorf("%d package load errors", nerr)
	}
	prog, spkgs := ssautil.AllPackages(pkgs, ssa.GlobalDebug)
	prog.Build()
	P := &Program{Repo: repo, Pkgs: pkgs, Prog: prog, SSAPkgs: map[string]*ssa.Package{}, Funcs: map[string]*ssa.Function{}}
	for i, p := range pkgs {
		if spkgs[i] == nil {
			continue
		}
		if p.Module != nil && P.ModPath == "" {
			P.ModPath = p.Module.Path
		}
		P.SSAPkgs[p.PkgPath] = spkgs[i]
	}
	for path, sp := range P.SSAPkgs {
		for fn := range ssautil.AllFunctions(prog) {
			if fn.Pkg == sp || (fn.Pkg == nil && fn.Origin() != nil && fn.Origin().Pkg == sp) {
				_ = path
			}
		}
	}
	// index functions: members, methods, anonymous functions
	for path, sp := range P.SSAPkgs {
		var add func(fn *ssa.Function)
		add = func(fn *ssa.Function) {
			if fn == nil {
				return
			}
			P.Funcs[path+"::"+fnKey(fn)] = fn
			for _, a := range fn.AnonFuncs {
				add(a)
			}
		}
		for _, m := range sp.Members {
			switch m := m.(type) {
			case *ssa.Function:
				add(m)
			case *ssa.Type:
				for _, T := range []types.Type{m.Type(), types.NewPointer(m.Type())} {
					ms := prog.MethodSets.MethodSet(T)
					for i := 0; i < ms.Len(); i++ {
						f := prog.MethodValue(ms.At(i))
						if f != nil && f.Synthetic == "" {
							add(f)
						} else if f != nil && f.Origin() != nil {
							add(f.Origin())
						}
					}
				}
				// generic named types: methods via object
				if n, ok := m.Type().(*types.Named); ok {
					for i := 0; i < n.NumMethods(); i++ {
						f := prog.FuncValue(n.Method(i))
						if f != nil {
							add(f)
						}
					}
				}
			}
		}
	}
	return P, nil
}

// fnKey gives the package-relative contract key of a function:
// F, (*T).M, (T).M, F$1, (*T).M$2
func fnKey(fn *ssa.Function) string {
	if fn.Parent() != nil {
		// anonymous: parentKey$N
		name := fn.Name() // e.g. "TestFuncFromBool$1"
		idx := strings.LastIndex(name, "$")
		return fnKey(fn.Parent()) + name[idx:]
	}
	if recv := fn.Signature.Recv(); recv != nil {
		t := recv.Type()
		ptr := false
		if p, ok := t.(*types.Pointer); ok {
			ptr = true
			t = p.Elem()
		}
		tn := ""
		if n, ok := t.(*types.Named); ok {
			tn = n.Obj().Name()
		} else {
			tn = t.String()
		}
		if ptr {
			return "(*" + tn + ")." + fn.Name()
		}
		return "(" + tn + ")." + fn.Name()
	}
	return fn.Name()
}

func (P *Program) sortedFuncKeys() []string {
	var ks []string
	for k := range P.Funcs {
		ks = append(ks, k)
	}
	sort.Strings(ks)
	return ks
}
