package main

import (
	"encoding/json"
	"flag"
	"fmt"
	"go/types"
	"os"
	"path/filepath"
	"sort"
	"strings"
	"time"

	"golang.org/x/tools/go/ssa"
)

func newVerifier(P *Program, C *Contracts) *Verifier {
	v := &Verifier{P: P, C: C, D: newDecls(), Y: &Syms{}, notes: map[string]int{}, maxPaths: 4000, globIDs: map[string]int{}, factSeen: map[string]bool{},
		fnByOp: map[string]*ssa.Function{}, fnContracts: map[*ssa.Function]*Contract{}, callSeq: map[string]int{}}
	return v
}

// resolveFuncVar finds the function literal stored into a package-level variable path like "DefaultCoercers.Bool"
func (P *Program) resolveFuncVars(pkgPath string) map[string]*ssa.Function {
	out := map[string]*ssa.Function{}
	sp := P.SSAPkgs[pkgPath]
	if sp == nil {
		return out
	}
	init := sp.Func("init")
	if init == nil {
		return out
	}
	var pathOf func(v ssa.Value) (string, bool)
	pathOf = func(v ssa.Value) (string, bool) {
		switch x := v.(type) {
		case *ssa.Global:
			return x.Name(), true
		case *ssa.FieldAddr:
			base, ok := pathOf(x.X)
			if !ok {
				return "", false
			}
			st := x.X.Type().Underlying().(*types.Pointer).Elem().Underlying().(*types.Struct)
			return base + "." + st.Field(x.Field).Name(), true
		}
		return "", false
	}
	var fnOf func(v ssa.Value) *ssa.Function
	fnOf = func(v ssa.Value) *ssa.Function {
		switch x := v.(type) {
		case *ssa.Function:
			return x
		case *ssa.MakeClosure:
			return x.Fn.(*ssa.Function)
		case *ssa.ChangeType:
			return fnOf(x.X)
		case *ssa.Call:
			// e.g. Time: TimeCoercerFactory(func...) -> not a literal
			return nil
		}
		return nil
	}
	for _, b := range init.Blocks {
		for _, in := range b.Instrs {
			if s, ok := in.(*ssa.Store); ok {
				if p, ok := pathOf(s.Addr); ok {
					if fn := fnOf(s.Val); fn != nil {
						out[p] = fn
					}
				}
			}
		}
	}
	return out
}

func descend(fn *ssa.Function, suffix string) *ssa.Function {
	// suffix like "$1$2"
	for suffix != "" && fn != nil {
		suffix = strings.TrimPrefix(suffix, "$")
		n := suffix
		if i := strings.Index(suffix, "$"); i >= 0 {
			n, suffix = suffix[:i], suffix[i:]
		} else {
			suffix = ""
		}
		var idx int
		fmt.Sscanf(n, "%d", &idx)
		if idx < 1 || idx > len(fn.AnonFuncs) {
			return nil
		}
		fn = fn.AnonFuncs[idx-1]
	}
	return fn
}

type propReport struct {
	ID     string
	Obls   map[string][]*SolveResult // by obligation name
	Failed []string
	Known  []string
}

type KnownFinding struct {
	Property   string `json:"property"`
	Obligation string `json:"obligation"`
	What       string `json:"what"`
	Demo       string `json:"demo,omitempty"`
}

type KnownFile struct {
	Findings []KnownFinding `json:"findings"`
	Fixed    []string       `json:"fixed"`
}

var knownObl = map[string]bool{}

func hasTag(tags []string, want map[string]bool) bool {
	for _, t := range tags {
		if want[t] || t == "ALL" {
			return true
		}
	}
	return false
}

func main() {
	repo := flag.String("repo", "/repo", "repository root")
	specs := flag.String("specs", "/verif/specs", "directory with *.spec files")
	dump := flag.String("dump", "", "dump SSA of functions whose key contains this substring")
	list := flag.Bool("list", false, "list function keys")
	props := flag.String("props", "", "comma separated property ids (empty = all tags)")
	tier := flag.String("tier", "quick", "quick|thorough")
	evdir := flag.String("evidence", "", "directory for evidence files")
	repdir := flag.String("replays", "", "directory for replay files")
	known := flag.String("known", "", "known findings file")
	only := flag.String("func", "", "only verify functions whose name contains this")
	show := flag.Bool("show", false, "print every obligation result")
	keep := flag.String("keep", "", "keep SMT files in this directory")
	jobs := flag.Int("j", 16, "parallel solver jobs")
	timeout := flag.Int("timeout", 0, "per-obligation timeout seconds")
	flag.Parse()
	t0 := time.Now()
	P, err := loadProgram(*repo)
	if err != nil {
		fmt.Fprintln(os.Stderr, "load failed:", err)
		os.Exit(2)
	}
	if *list {
		for _, k := range P.sortedFuncKeys() {
			fmt.Println(k)
		}
		return
	}
	if *dump != "" {
		for _, k := range P.sortedFuncKeys() {
			if strings.Contains(k, *dump) {
				fmt.Println("=====", k)
				P.Funcs[k].WriteTo(os.Stdout)
			}
		}
		return
	}
	C := loadAllContracts(P, *specs)
	if len(C.Errors) > 0 {
		for _, e := range C.Errors {
			fmt.Fprintln(os.Stderr, "contract error:", e)
		}
		os.Exit(2)
	}
	v := newVerifier(P, C)
	v.safety = true
	v.frameOn = true
	want := map[string]bool{}
	var propList []string
	if *props != "" {
		for _, p := range strings.Split(*props, ",") {
			want[strings.TrimSpace(p)] = true
			propList = append(propList, strings.TrimSpace(p))
		}
	}
	// resolve contracts
	type job struct {
		fn   *ssa.Function
		con  *Contract
		name string
	}
	var jobsL []job
	var missing []*Obligation
	fvCache := map[string]map[string]*ssa.Function{}
	for _, key := range sortedKeys(C.Funcs) {
		con := C.Funcs[key]
		fn := P.Funcs[key]
		name := shortName(con.Pkg, con.Name)
		if fn == nil {
			missing = append(missing, missingObl(name, con))
			continue
		}
		v.fnContracts[fn] = con
		jobsL = append(jobsL, job{fn, con, name})
	}
	for _, key := range sortedKeys(C.FuncVars) {
		con := C.FuncVars[key]
		if fvCache[con.Pkg] == nil {
			fvCache[con.Pkg] = P.resolveFuncVars(con.Pkg)
		}
		base, suffix := con.Name, ""
		if i := strings.Index(base, "$"); i >= 0 {
			base, suffix = base[:i], base[i:]
		}
		fn := descend(fvCache[con.Pkg][base], suffix)
		name := shortName(con.Pkg, "var:"+con.Name)
		if fn == nil {
			missing = append(missing, missingObl(name, con))
			continue
		}
		v.fnContracts[fn] = con
		jobsL = append(jobsL, job{fn, con, name})
	}
	for _, j := range jobsL {
		if j.con.Trusted {
			continue
		}
		if *only != "" && !strings.Contains(j.name, *only) {
			continue
		}
		func() {
			defer func() {
				if r := recover(); r != nil {
					v.errs = append(v.errs, fmt.Sprintf("%s: engine panic: %v", j.name, r))
					if os.Getenv("GOVC_PANIC") != "" {
						panic(r)
					}
				}
			}()
			v.verifyFunc(j.fn, j.con, j.name)
		}()
	}
	all := append(missing, v.obls...)
	// engine/contract errors fail closed as obligations of their function
	for _, e := range v.errs {
		fn := strings.SplitN(e, ": ", 2)[0]
		o := &Obligation{Name: fn + "#contract-error", Func: fn, Kind: "error", Goal: tFalse, Expect: "unsat", D: newDecls(), Src: e, Tags: []string{"ALL"}}
		all = append(all, o)
	}
	// select
	var sel []*Obligation
	funcsWith := map[string]bool{}
	for _, o := range all {
		if o.Kind == "vacuity" {
			continue
		}
		if len(want) == 0 || hasTag(o.Tags, want) {
			sel = append(sel, o)
			funcsWith[o.Func] = true
		}
	}
	for _, o := range all {
		if o.Kind == "vacuity" && funcsWith[o.Func] {
			sel = append(sel, o)
		}
	}
	// support obligations: an untagged clause (a helper invariant, a callee precondition, a plain postcondition) of a
	// function that carries a selected obligation is a lemma the selected proof may rest on (the invariant is assumed
	// when the tagged postcondition is proved), so it is checked with it.
	if len(want) != 0 {
		for _, o := range all {
			if o.Kind != "vacuity" && len(o.Tags) == 0 && funcsWith[o.Func] {
				sel = append(sel, o)
			}
		}
	}
	work := *keep
	if work == "" {
		work, _ = os.MkdirTemp("", "govc-")
		defer os.RemoveAll(work)
	}
	to := *timeout
	if to == 0 {
		to = 30 // a proved VC needs well under 2 s; the margin is for machines under load (a timeout would be a false alarm)
		if *tier == "thorough" {
			to = 60
		}
	}
	var kf KnownFile
	if *known != "" {
		if data, err := os.ReadFile(*known); err == nil {
			json.Unmarshal(data, &kf)
		}
	}
	// an obligation recorded as an open finding is expected to stay undischarged: it gets a short solver budget
	// in the quick tier (it is still attempted, and reported as KNOWN-FINDING only while it fails)
	if *tier != "thorough" {
		for _, k := range kf.Findings {
			knownObl[k.Obligation] = true
		}
	}
	tSolve := time.Now()
	results := solveAll(sel, work, *jobs, to, *tier == "thorough")
	solveWall := time.Since(tSolve).Seconds()
	if os.Getenv("GOVC_SLOWVC") != "" {
		for _, r := range results {
			if r.TimeS > 2 && r.Obl.Expect == "unsat" {
				fmt.Printf("slow-vc %.2fs %s path=%d %s %s\n", r.TimeS, r.Obl.Name, r.Obl.PathID, r.Status, strings.Join(r.Tried, " "))
			}
		}
	}
	// group by name
	byName := map[string][]*SolveResult{}
	for _, r := range results {
		byName[r.Obl.Name] = append(byName[r.Obl.Name], r)
	}
	if len(propList) == 0 {
		propList = []string{"ALL"}
		want["ALL"] = true
	}
	exit := 0
	if *show {
		names := sortedKeys(byName)
		for _, n := range names {
			nok, nbad := 0, 0
			var first *SolveResult
			isRet := byName[n][0].Obl.Kind == "vacuity" && byName[n][0].Obl.Label == "return"
			for _, r := range byName[n] {
				ok := r.Status == r.Obl.Expect || (r.Obl.Expect == "sat" && r.Status == "unknown")
				if ok {
					nok++
				} else {
					nbad++
					if first == nil || (first.Status != "sat" && r.Status == "sat") {
						first = r
					}
				}
			}
			if nbad == 0 || (isRet && nok > 0) {
				fmt.Printf("ok   %-80s paths=%d\n", n, nok)
				continue
			}
			fmt.Printf("FAIL %-80s paths ok=%d bad=%d  %s %s %s\n", n, nok, nbad, first.Status, strings.Join(first.Tried, " "), first.Obl.Where)
			fmt.Printf("       clause: %s\n", trimModel(first.Obl.Src, 300))
			if first.Model != "" && os.Getenv("GOVC_MODEL") != "" {
				fmt.Printf("       model: %s\n", trimModel(first.Model, 3000))
			}
			if first.Output != "" {
				fmt.Printf("       output: %s\n", trimModel(first.Output, 300))
			}
		}
		for _, n := range sortedKeys(v.notes) {
			fmt.Printf("note: %s (x%d)\n", n, v.notes[n])
		}
	}
	for _, pid := range propList {
		w := map[string]bool{pid: true}
		var names []string
		for n, rs := range byName {
			o := rs[0].Obl
			if o.Kind == "vacuity" {
				continue
			}
			if pid == "ALL" || hasTag(o.Tags, w) {
				names = append(names, n)
			}
		}
		sort.Strings(names)
		funcs := map[string]bool{}
		for _, n := range names {
			funcs[byName[n][0].Obl.Func] = true
		}
		for n, rs := range byName {
			if rs[0].Obl.Kind == "vacuity" && funcs[rs[0].Obl.Func] {
				names = append(names, n)
			} else if pid != "ALL" && rs[0].Obl.Kind != "vacuity" && len(rs[0].Obl.Tags) == 0 && funcs[rs[0].Obl.Func] {
				names = append(names, n) // untagged support obligation of a function under this property
			}
		}
		sort.Strings(names)
		nObl, nDis, nVC := 0, 0, 0
		byBackend := map[string]int{}
		solverTime := 0.0
		type slow struct {
			Name string  `json:"name"`
			S    float64 `json:"s"`
		}
		var slowest []slow
		var samples []map[string]any
		var violations []string
		var knownHit []string
		for _, n := range names {
			rs := byName[n]
			nObl++
			okAll := true
			anyOK := false
			var bad *SolveResult
			t := 0.0
			for _, r := range rs {
				nVC++
				byBackend[r.Backend]++
				solverTime += r.TimeS
				t += r.TimeS
				ok := r.Status == r.Obl.Expect || (r.Obl.Expect == "sat" && r.Status == "unknown")
				if !ok {
					okAll = false
					if bad == nil || (bad.Status != "sat" && r.Status == "sat") {
						bad = r
					}
				} else {
					anyOK = true
				}
			}
			if rs[0].Obl.Kind == "vacuity" && rs[0].Obl.Label == "return" && anyOK {
				okAll = true // one feasible return path is enough
			}
			slowest = append(slowest, slow{n, t})
			if okAll {
				nDis++
				if len(samples) < 6 {
					samples = append(samples, map[string]any{"obligation": n, "clause": rs[0].Obl.Src, "paths": len(rs), "status": "discharged", "backend": rs[0].Backend})
				}
				continue
			}
			// known finding?
			isKnown := false
			for _, k := range kf.Findings {
				if k.Property == pid && k.Obligation == n {
					isKnown = true
					fmt.Printf("KNOWN-FINDING: property=%s %s (%s)\n", pid, n, k.What)
					knownHit = append(knownHit, n)
				}
			}
			if isKnown {
				// a recorded open finding is not part of the proved set: it is listed under known_findings and
				// excluded from the obligations / discharged counts (which must be equal for a proof-level record)
				nObl--
				continue
			}
			// replay file
			rp := ""
			if *repdir != "" {
				d := filepath.Join(*repdir, pid)
				os.MkdirAll(d, 0o755)
				rp = filepath.Join(d, sanitize(n)+".json")
				smtText := ""
				if bad.File != "" {
					if data, err := os.ReadFile(bad.File); err == nil && len(data) < 400000 {
						smtText = string(data)
					}
				}
				rep := map[string]any{"property": pid, "obligation": n, "kind": bad.Obl.Kind, "clause": bad.Obl.Src, "where": bad.Obl.Where, "status": bad.Status,
					"backends": bad.Tried, "model": bad.Model, "solver_output": bad.Output, "smt2": smtText, "replayed": false,
					"note": "failed proof obligation; see model for the verifier's counterexample (if any)"}
				data, _ := json.MarshalIndent(rep, "", " ")
				os.WriteFile(rp, data, 0o644)
			}
			suffix := ""
			if !replayOnRealCode(pid, n, bad, rp, *repo) {
				suffix = " no-failing-input-found"
			}
			violations = append(violations, n)
			fmt.Printf("VIOLATION property=%s replay=%s obligation=%s status=%s%s\n", pid, rp, n, bad.Status, suffix)
			exit = 1
		}
		sort.Slice(slowest, func(i, j int) bool { return slowest[i].S > slowest[j].S })
		if len(slowest) > 5 {
			slowest = slowest[:5]
		}
		if *evdir != "" && pid != "ALL" {
			var fl []string
			for f := range funcs {
				fl = append(fl, f)
			}
			sort.Strings(fl)
			var notes []string
			for _, n := range sortedKeys(v.notes) {
				notes = append(notes, fmt.Sprintf("%s (x%d)", n, v.notes[n]))
			}
			var trusted []string
			for _, k := range sortedKeys(C.Externs) {
				trusted = append(trusted, "extern contract (assumed): "+k)
			}
			for _, c := range C.FuncTypes {
				trusted = append(trusted, "functype contract (assumed for user callbacks): "+c.Name)
			}
			for _, k := range sortedKeys(C.Funcs) {
				c := C.Funcs[k]
				if c.Kind == "extern" {
					continue
				}
				if c.Trusted {
					trusted = append(trusted, "trusted contract on a zog function (body not verified): "+k)
				} else if c.TrustedPosts {
					trusted = append(trusted, "trusted postconditions on a zog function (body verified for safety, frames and callee preconditions only): "+k)
				}
				for _, u := range c.Unfolds {
					trusted = append(trusted, "unfold assumption at entry of "+k+": "+u.Src)
				}
			}
			trusted = append(trusted, "go/ssa (x/tools v0.29.0) translation of the source", "govc VC generator (this engine)", "SMT solvers z3 5.1.0 / cvc5 1.0.3 / z3 4.8.12")
			seed := 0
			fmt.Sscanf(os.Getenv("VERIF_SEED"), "%d", &seed)
			ev := map[string]any{
				"property_id": pid, "tier": *tier, "seed": seed, "level": "proof",
				"coverage": map[string]any{
					"obligations": nObl, "discharged": nDis, "vcs": nVC,
					"checker_cmd":              strings.Join(os.Args, " "),
					"trusted_base":             trusted,
					"functions_under_contract": fl,
					"by_backend":               byBackend,
					"solver_time_s":            round2(solverTime),
					"solve_wall_s":             round2(solveWall),
					"slowest":                  slowest,
					"abstractions":             notes,
					"samples":                  samples,
					"known_findings":           knownHit,
					"undischarged_recorded_as_known_findings": len(knownHit),
					"failed": violations,
				},
				"assumptions": assumptionsText(),
				"wall_s":      round2(time.Since(t0).Seconds()),
				"violations":  len(violations),
			}
			os.MkdirAll(*evdir, 0o755)
			data, _ := json.MarshalIndent(ev, "", " ")
			os.WriteFile(filepath.Join(*evdir, pid+".json"), data, 0o644)
		}
		fmt.Printf("property %s: %d obligations (%d VCs), %d discharged, %d known findings, %d violations, %.1fs\n", pid, nObl, nVC, nDis, len(knownHit), len(violations), time.Since(t0).Seconds())
		if nObl == 0 {
			fmt.Printf("VIOLATION property=%s replay= obligation=vacuity:count (no obligations generated) no-failing-input-found\n", pid)
			exit = 1
		}
	}
	os.Exit(exit)
}

func round2(f float64) float64 { return float64(int(f*100+0.5)) / 100 }

func trimModel(s string, n int) string {
	s = strings.Join(strings.Fields(s), " ")
	if len(s) > n {
		return s[:n] + "..."
	}
	return s
}

func shortName(pkg, name string) string {
	p := pkg
	if i := strings.LastIndex(p, "/"); i >= 0 {
		p = p[i+1:]
	}
	return p + "." + name
}

func missingObl(name string, con *Contract) *Obligation {
	tags := map[string]bool{}
	for _, cl := range append(append([]*Clause{}, con.Requires...), con.Ensures...) {
		for _, t := range cl.Tags {
			tags[t] = true
		}
	}
	var tl []string
	for t := range tags {
		tl = append(tl, t)
	}
	if len(tl) == 0 {
		tl = []string{"ALL"}
	}
	sort.Strings(tl)
	return &Obligation{Name: name + "#missing", Func: name, Kind: "missing", Goal: tFalse, Expect: "unsat", D: newDecls(), Src: "contracted function not found in /repo", Tags: tl}
}

func assumptionsText() []string {
	return []string{
		"A1 integer arithmetic is mathematical (no overflow) except explicit conversions, which wrap exactly",
		"A2 strings are SMT-LIB strings of bytes; range-over-string yields an abstract rune sequence",
		"A3 no goroutines/channels/unsafe in verified code (occurrences are abstracted and listed)",
		"A4 pointers read from the entry heap are not freshly allocated objects",
		"A6 termination is not verified",
		"A7 user callbacks satisfy their function-type contracts",
		"A8 trusted contracts on dependencies (extern entries in specs/*.spec)",
		"A9 int is 64 bit",
		"A10 string sets (formatter, C09): strset / strnodup are abstract functions of the string heap and a slice header; what append, an empty slice and a store outside the slice do to them is stated by the engine from their definition, not proved; sslen / ssnth (ascending enumeration of a finite string set) are uninterpreted and tied to the code only by the trusted sort.Strings / slices.Sort contract; a pointer carried into a loop iteration is assumed distinct from the iteration's own allocations",
	}
}

// replayOnRealCode is overridden by replay drivers (replay.go); default: none available.
var replayHook func(pid, obl string, r *SolveResult, replayPath, repo string) bool

func replayOnRealCode(pid, obl string, r *SolveResult, replayPath, repo string) bool {
	if replayHook != nil {
		return replayHook(pid, obl, r, replayPath, repo)
	}
	if r == nil || r.Obl == nil || r.Status != "sat" || r.File == "" {
		return false
	}
	isStr := r.Obl.Func == "zconst.NotIssueCode"
	if coercerTarget(r.Obl.Func) == nil && !isStr {
		return false
	}
	data, err := os.ReadFile(r.File)
	if err != nil {
		return false
	}
	var ok bool
	var rep map[string]any
	if isStr {
		ok, rep = replayStringFunc(r.Obl, string(data), repo, "zconst", "zconst", "NotIssueCode", "e")
	} else {
		ok, rep = replayCoercer(r.Obl, string(data), repo)
	}
	if rep == nil || replayPath == "" {
		return ok
	}
	// extend the replay file
	var cur map[string]any
	if b, err := os.ReadFile(replayPath); err == nil {
		json.Unmarshal(b, &cur)
	}
	if cur == nil {
		cur = map[string]any{}
	}
	for k, x := range rep {
		cur[k] = x
	}
	cur["replayed"] = ok
	if ok {
		cur["note"] = "the solver's counterexample was replayed on the real code: calling the function on `input` returned `observed`, and asserting that outcome into the failed query keeps it satisfiable (the clause is violated by the real code on this input). Re-run: bin/replay <this file>"
	} else {
		cur["note"] = "failed proof obligation; the counterexample could not be confirmed on the real code (see replay fields)"
	}
	b, _ := json.MarshalIndent(cur, "", " ")
	os.WriteFile(replayPath, b, 0o644)
	return ok
}
