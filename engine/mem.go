package main

import (
	"fmt"
	"go/types"
	"sort"
	"strings"

	"golang.org/x/tools/go/ssa"
)

type Obligation struct {
	Name   string // pkg.Func#kind:label
	Func   string
	Kind   string
	Label  string
	Tags   []string
	Assume []*Term
	Goal   *Term
	NDecls int
	Src    string
	PathID int
	Where  string
	Expect string // "unsat" normally; "sat" for vacuity/canary
	D      *Decls
	Note   string
	// for replay on the real code: the entry values of the parameters (by name) and, for postconditions, the result terms
	Params  map[string]*Term
	Results []*Term
}

type collector struct {
	header    *ssa.BasicBlock
	blocks    map[*ssa.BasicBlock]bool
	depth     int
	writes    []wrec
	globals   []modLoc
	allKeys   map[string]bool // keys havocked entirely
	ghosts    map[string]bool
	internals map[string]bool
	symMark   int
	newMark   int
}

type wrec struct {
	key  string
	addr *Term
}

type Verifier struct {
	curParams    map[string]*Term
	curResults   []*Term
	deferredGU   []deferredGhost
	P            *Program
	C            *Contracts
	D            *Decls
	Y            *Syms
	obls         []*Obligation
	newCtr       int
	col          *collector
	notes        map[string]int
	curFn        string // name of function being verified
	curCon       *Contract
	pathN        int
	maxPaths     int
	errs         []string
	subst        map[string]types.Type
	globIDs      map[string]int
	safety       bool
	factSeen     map[string]bool
	contractLits []string // string literals of the verified function's contract (instances for map-range exhaustion)
	setTheory    bool     // the function under verification speaks about string sets (visitedset / strset / domof)
	ftCache      map[string]*Contract
	inlineDepth  int
	wantTags     map[string]bool
	fnByOp       map[string]*ssa.Function
	fnContracts  map[*ssa.Function]*Contract
	callSeq      map[string]int
	pendingForks []*State
	topVars      map[string]Val
	extraPosts   []*Contract
	returns      int
	exactInts    bool
	frameOn      bool
	modset       []modLoc
	curTop       *ssa.Function
	frameGuard   *Term
	localCells   []*Term // captured-variable cells of the closure under verification (locals of the enclosing function)
}

func (v *Verifier) note(s string) { v.notes[s]++ }

func (v *Verifier) errorf(format string, a ...any) {
	v.errs = append(v.errs, fmt.Sprintf("%s: %s", v.curFn, fmt.Sprintf(format, a...)))
}

// ---- type substitution for generics

func (v *Verifier) substT(t types.Type) types.Type {
	if len(v.subst) == 0 {
		return t
	}
	return substType(t, v.subst, 0)
}

func substType(t types.Type, sub map[string]types.Type, depth int) types.Type {
	if depth > 8 {
		return t
	}
	switch tt := t.(type) {
	case *types.Alias:
		return substType(types.Unalias(tt), sub, depth+1)
	case *types.TypeParam:
		if r, ok := sub[tt.Obj().Name()]; ok {
			return r
		}
		return t
	case *types.Pointer:
		return types.NewPointer(substType(tt.Elem(), sub, depth+1))
	case *types.Slice:
		return types.NewSlice(substType(tt.Elem(), sub, depth+1))
	case *types.Array:
		return types.NewArray(substType(tt.Elem(), sub, depth+1), tt.Len())
	case *types.Map:
		return types.NewMap(substType(tt.Key(), sub, depth+1), substType(tt.Elem(), sub, depth+1))
	case *types.Named:
		ta := tt.TypeArgs()
		if ta.Len() == 0 {
			return t
		}
		var args []types.Type
		changed := false
		for i := 0; i < ta.Len(); i++ {
			a := substType(ta.At(i), sub, depth+1)
			if a != ta.At(i) {
				changed = true
			}
			args = append(args, a)
		}
		if !changed {
			return t
		}
		inst, err := types.Instantiate(nil, tt.Origin(), args, false)
		if err != nil {
			return t
		}
		return inst
	}
	return t
}

func (v *Verifier) sortOf(t types.Type) string { return v.D.sortOf(v.substT(t)) }

// ---- heap access

func (v *Verifier) heapFor(st *State, sort string) *HeapArr {
	key := heapKeyForSort(sort)
	if h, ok := st.heap[key]; ok {
		return h
	}
	base := "zz_h0_" + sortTag(sort)
	v.D.declConst(base, "(Array Ptr "+sort+")")
	h := &HeapArr{Key: key, IdxSort: "Ptr", ElSort: sort, Base: mk("(Array Ptr "+sort+")", base)}
	st.heap[key] = h
	for _, g := range st.globalHavocs {
		v.applyGlobalHavoc(st, h, g)
	}
	return h
}

// internalField(p): p is a field of an object of a struct type declared in the verified module
// (zog's own bookkeeping and schema objects), as opposed to user data.
func (v *Verifier) internalField(p *Term, key string) *Term {
	var alts []*Term
	idx := mk("Int", "zz_fld_idx", p)
	if p.Op == "zz_fld" {
		idx = p.Args[1]
	}
	for _, sn := range sortedKeys(v.D.structBase) {
		pk := v.D.structPkg[sn]
		if pk == "" || !(strings.HasPrefix(pk, v.P.ModPath) || pk == "sync" || pk == "strings") {
			continue
		}
		b := v.D.structBase[sn]
		alts = append(alts, tAnd(tCmp("<=", intLit(int64(b)), idx), tCmp("<", idx, intLit(int64(b+1000)))))
	}
	isF := mk("Bool", "(_ is zz_fld)", p)
	if p.Op == "zz_fld" {
		isF = tTrue
	} else if isCtor(p) {
		isF = tFalse
	}
	r := tAnd(isF, tOr(alts...))
	if key == "h_Fn" {
		isE := mk("Bool", "(_ is zz_elem)", p)
		if p.Op == "zz_elem" {
			isE = tTrue
		} else if isCtor(p) {
			isE = tFalse
		}
		r = tOr(r, isE)
	}
	return r
}

// applyGlobalHavoc applies a heap-wide havoc (kinds heap, userdata, under) to one heap component.
func (v *Verifier) applyGlobalHavoc(st *State, h *HeapArr, l modLoc) {
	if h.IdxSort != "Ptr" || strings.HasPrefix(h.Key, "g_") {
		if l.kind == "heap" {
			h.regionHavoc(v.Y.fresh(v.D, "hall", h.arraySort()), predAll)
		}
		return
	}
	if strings.HasPrefix(h.Key, "map") && l.kind != "heap" {
		return
	}
	oldArr := h.arrayTerm()
	nb := v.Y.fresh(v.D, "hg_"+l.kind, h.arraySort())
	if l.kind != "heap" {
		p := mk("Ptr", "zz_qp")
		sel := mk(h.ElSort, "select", nb, p)
		var keep *Term
		switch l.kind {
		case "userdata":
			keep = tOr(v.internalField(p, h.Key), mk("Bool", "zz_isnew", p), mk("Bool", "(_ is zz_glob)", p))
			for _, c := range v.localCells {
				keep = tOr(keep, mk("Bool", "zz_under", p, c))
			}
			// cells whose Go type is defined by the verified module (e.g. *PathBuilder) are zog's own objects
			if v.D.seen["fun:zz_celltype"] {
				var tys []*Term
				for ts, id := range v.D.tids {
					if ty := v.D.tidTy[ts]; ty != nil {
						if n, ok := ty.(*types.Named); ok && n.Obj().Pkg() != nil && strings.HasPrefix(n.Obj().Pkg().Path(), v.P.ModPath) {
							tys = append(tys, tEq(mk("Int", "zz_celltype", p), intLit(int64(id))))
						}
					}
				}
				sort.Slice(tys, func(i, j int) bool { return tys[i].String() < tys[j].String() })
				keep = tOr(keep, tOr(tys...))
			}
			// elements of backing arrays that zog marked as its own (ghost map IARR, e.g. a path builder's segments)
			if ia, ok := st.heap["g_IARR"]; ok {
				keep = tOr(keep, tAnd(mk("Bool", "(_ is zz_elem)", p), mk("Bool", "select", ia.arrayTerm(), mk("Ptr", "zz_elem_base", p))))
			}
		case "under":
			keep = tNot(mk("Bool", "zz_under", p, l.base))
		}
		st.assume(mk("Bool", "forall ((zz_qp Ptr))", withPattern(tImp(keep, tEq(sel, mk(h.ElSort, "select", oldArr, p))), sel)))
	}
	kind, base := l.kind, l.base
	h.regionHavoc(nb, func(a *Term) int {
		switch kind {
		case "heap":
			return 1
		case "userdata":
			// locals and objects allocated by the verified function are not user data; fields of module types neither
			if r := rootOf(a); r.Op == "zz_new" || r.Op == "zz_glob" || strings.HasPrefix(r.Op, "zz_fv_") {
				return 0
			}
			f := v.internalField(a, h.Key)
			if f.Op == "true" {
				return 0
			}
			if f.Op == "false" {
				return 1
			}
			return -1
		case "under":
			q := a
			for {
				if termEq(q, base) {
					return 1
				}
				if q.Op == "zz_fld" || q.Op == "zz_elem" {
					q = q.Args[0]
					continue
				}
				break
			}
			if isCtor(q) && isCtor(rootOf(base)) {
				if d, ok := provablyDistinct(q, rootOf(base)); ok && d {
					return 0
				}
			}
			if q.Op == "zz_new" && !isCtor(rootOf(base)) {
				return -1
			}
			return -1
		}
		return -1
	})
}

func (v *Verifier) customHeap(st *State, key, idxSort, elSort string) *HeapArr {
	if h, ok := st.heap[key]; ok {
		return h
	}
	base := "zz_h0_" + sanitize(key)
	as := "(Array " + idxSort + " " + elSort + ")"
	v.D.declConst(base, as)
	h := &HeapArr{Key: key, IdxSort: idxSort, ElSort: elSort, Base: mk(as, base)}
	st.heap[key] = h
	return h
}

func (v *Verifier) recordWrite(st *State, key string, addr *Term) {
	if v.col != nil {
		st.colW = append(st.colW, wrec{key, addr})
	}
}

func isLeafSort(d *Decls, s string) bool {
	_, isStruct := d.structs[s]
	return !isStruct && !strings.HasPrefix(s, "(Array Int")
}

// load reads a value of Go type t at address addr.
func (v *Verifier) load(st *State, addr *Term, t types.Type) *Term {
	t = v.substT(t)
	s := v.D.sortOf(t)
	if st2, ok := v.D.structs[s]; ok {
		var fs []*Term
		for i := 0; i < st2.NumFields(); i++ {
			fs = append(fs, v.load(st, v.D.fieldPtr(addr, s, i), st2.Field(i).Type()))
		}
		return v.D.structMake(s, fs)
	}
	if strings.HasPrefix(s, "(Array Int") {
		v.note("abstracted: whole-array load")
		return v.Y.fresh(v.D, "arr", s)
	}
	h := v.heapFor(st, s)
	v.cellFact(st, addr, t)
	r := h.read(addr)
	if r.Op == "select" {
		v.addTypeFacts(st, r, t)
		if r.Sort == "Iface" && fromEntryHeap(r) && !mentionsBound(r) {
			st.assume(tNotFresh(mk("Ptr", v.D.unboxFn("Ptr"), r)))
		}
	}
	return r
}

func (v *Verifier) store(st *State, addr *Term, t types.Type, val *Term) {
	t = v.substT(t)
	s := v.D.sortOf(t)
	if st2, ok := v.D.structs[s]; ok {
		for i := 0; i < st2.NumFields(); i++ {
			v.store(st, v.D.fieldPtr(addr, s, i), st2.Field(i).Type(), v.D.structProj(val, st2, i))
		}
		return
	}
	if strings.HasPrefix(s, "(Array Int") {
		v.note("abstracted: whole-array store")
		return
	}
	h := v.heapFor(st, s)
	v.cellFact(st, addr, t)
	h.write(addr, val)
	v.recordWrite(st, h.Key, addr)
}

// cellFact records Go's type safety for one memory cell: the cell at addr holds a value of Go type t
// (zz_celltype). Two pointers to cells of different Go types can therefore never alias.
func (v *Verifier) cellFact(st *State, addr *Term, t types.Type) {
	if rootOf(addr).Op == "zz_new" || addr.Op == "zz_nilptr" || mentionsBound(addr) || v.D.mentionsForeign(t) {
		return
	}
	v.D.declFun("zz_celltype", []string{"Ptr"}, "Int")
	st.assume(tEq(mk("Int", "zz_celltype", addr), v.D.typeID(t)))
}

// leaves enumerates (address, sort) for every scalar leaf of a value of type t at addr.
type leaf struct {
	addr *Term
	sort string
	typ  types.Type
}

func (v *Verifier) leaves(addr *Term, t types.Type) []leaf {
	t = v.substT(t)
	s := v.D.sortOf(t)
	if st2, ok := v.D.structs[s]; ok {
		var out []leaf
		for i := 0; i < st2.NumFields(); i++ {
			out = append(out, v.leaves(v.D.fieldPtr(addr, s, i), st2.Field(i).Type())...)
		}
		return out
	}
	if strings.HasPrefix(s, "(Array Int") {
		return nil
	}
	return []leaf{{addr, s, t}}
}

// havocAt writes a fresh value at every leaf of *addr (type t)
func (v *Verifier) havocAt(st *State, addr *Term, t types.Type, why string) {
	for _, l := range v.leaves(addr, t) {
		f := v.Y.fresh(v.D, "hv_"+why, l.sort)
		v.addTypeFacts(st, f, l.typ)
		h := v.heapFor(st, l.sort)
		h.write(l.addr, f)
		v.recordWrite(st, h.Key, l.addr)
	}
}

// ---- type facts

func intRange(b *types.Basic) (string, string, bool) {
	switch b.Kind() {
	case types.Int, types.Int64:
		return "-9223372036854775808", "9223372036854775807", true
	case types.Int32: // also rune
		return "-2147483648", "2147483647", true
	case types.Int16:
		return "-32768", "32767", true
	case types.Int8:
		return "-128", "127", true
	case types.Uint, types.Uint64, types.Uintptr:
		return "0", "18446744073709551615", true
	case types.Uint32:
		return "0", "4294967295", true
	case types.Uint16:
		return "0", "65535", true
	case types.Uint8:
		return "0", "255", true
	}
	return "", "", false
}

func (v *Verifier) typeFacts(t *Term, ty types.Type) []*Term {
	if ty == nil {
		return nil
	}
	ty = v.substT(ty)
	switch u := types.Unalias(ty).Underlying().(type) {
	case *types.Basic:
		if lo, hi, ok := intRange(u); ok && t.Sort == "Int" {
			if _, isLit := isIntLit(t); isLit {
				return nil
			}
			return []*Term{mk("Bool", "<=", bigLit(lo), t), mk("Bool", "<=", t, bigLit(hi))}
		}
	case *types.Slice:
		if t.Op == "zz_mkslice" {
			return nil
		}
		return []*Term{
			mk("Bool", "<=", intLit(0), slOff(t)),
			mk("Bool", "<=", intLit(0), slLen(t)),
			mk("Bool", "<=", slLen(t), slCap(t)),
			mk("Bool", "=>", mk("Bool", "=", slBase(t), tNilP), mk("Bool", "=", slCap(t), intLit(0))),
		}
	}
	return nil
}

// fromEntryHeap: t is a read whose array bottoms out at a heap component as it was on entry of the verified function
func fromEntryHeap(t *Term) bool {
	if t.Op != "select" || len(t.Args) != 2 {
		return false
	}
	a := t.Args[0]
	for a.Op == "store" {
		// a write that may alias the address read is acceptable only if what it stored is itself an entry-state value
		if d, ok := provablyDistinct(a.Args[1], t.Args[1]); !(ok && d) && !entryValue(a.Args[2]) {
			return false
		}
		a = a.Args[0]
	}
	if a.Op == "select" && len(a.Args) == 2 {
		// a map's value array: mapval[m][k] with the map itself from the entry state
		inner := a.Args[0]
		for inner.Op == "store" {
			if d, ok := provablyDistinct(inner.Args[1], a.Args[1]); !(ok && d) {
				return false
			}
			inner = inner.Args[0]
		}
		return strings.HasPrefix(inner.Op, "zz_h0_mapval_") && entryRooted(a.Args[1])
	}
	return strings.HasPrefix(a.Op, "zz_h0_") && entryRooted(t.Args[1])
}

// entryValue: a stored value that denotes only entry-state objects (nil, or pointers / slices rooted in the entry state)
func entryValue(x *Term) bool {
	switch x.Sort {
	case "Ptr":
		return x.Op == "zz_nilptr" || entryRooted(x)
	case "Slice":
		if x.Op == "zz_mkslice" {
			return x.Args[0].Op == "zz_nilptr" || entryRooted(x.Args[0])
		}
		return fromEntryHeap(x)
	case "Iface", "Fn":
		return false
	}
	return true
}

// entryRooted: the address is built only from parameters, globals and values read from the entry heap
// (so it denotes a location that existed when the verified function was entered).
func entryRooted(a *Term) bool {
	for a.Op == "zz_fld" || a.Op == "zz_elem" {
		a = a.Args[0]
	}
	switch {
	case a.Op == "zz_glob":
		return true
	case len(a.Args) == 0:
		return strings.HasPrefix(a.Op, "zz_p_") || strings.HasPrefix(a.Op, "zz_fv_")
	case a.Op == "select":
		return fromEntryHeap(a)
	case strings.HasPrefix(a.Op, "zz_unbox_") || a.Op == "zz_sl_base":
		return entryRooted(a.Args[0]) || fromEntryHeap(a.Args[0])
	}
	return false
}

func mentionsBound(t *Term) bool {
	if len(t.Args) == 0 {
		return strings.HasPrefix(t.Op, "zz_q")
	}
	for _, a := range t.Args {
		if mentionsBound(a) {
			return true
		}
	}
	return false
}

func (v *Verifier) addTypeFacts(st *State, t *Term, ty types.Type) {
	if mentionsBound(t) {
		return
	}
	// A4: pointers found in the entry heap do not point into objects allocated later by this function
	if t.Sort == "Ptr" && fromEntryHeap(t) {
		st.assume(tNotFresh(t))
	}
	if t.Sort == "Slice" && fromEntryHeap(t) {
		st.assume(tNotFresh(slBase(t)))
	}
	for _, f := range v.typeFacts(t, ty) {
		k := f.String()
		if v.factSeen[k] {
			// still need it on this path; facts are cheap, but avoid unbounded duplication per path
		}
		st.assume(f)
	}
}

// ---- allocation

func (v *Verifier) alloc() *Term {
	k := v.newCtr
	v.newCtr++
	return pNew(k)
}

func (v *Verifier) globalPtr(g *ssa.Global) *Term {
	name := g.Pkg.Pkg.Path() + "." + g.Name()
	id, ok := v.globIDs[name]
	if !ok {
		id = len(v.globIDs) + 1
		v.globIDs[name] = id
	}
	return pGlob(id)
}

func (v *Verifier) globalPtrByName(pkgPath, name string) *Term {
	full := pkgPath + "." + name
	id, ok := v.globIDs[full]
	if !ok {
		id = len(v.globIDs) + 1
		v.globIDs[full] = id
	}
	return pGlob(id)
}

// ---- interface boxing

func (v *Verifier) box(st *State, val *Term, t types.Type) *Term {
	t = v.substT(t)
	if _, ok := t.Underlying().(*types.Interface); ok {
		if _, isTP := types.Unalias(t).(*types.TypeParam); !isTP {
			return val
		}
	}
	tid := v.D.typeID(t)
	bf := v.D.boxFn(val.Sort)
	uf := v.D.unboxFn(val.Sort)
	b := mk("Iface", bf, tid, val)
	if !mentionsBound(val) {
		st.assume(mk("Bool", "=", mk("Int", "zz_dyn", b), tid))
		st.assume(mk("Bool", "=", mk(val.Sort, uf, b), val))
	}
	return b
}

func (v *Verifier) unbox(i *Term, t types.Type) *Term {
	s := v.sortOf(t)
	if i.Op == v.D.boxFn(s) && len(i.Args) == 2 {
		return i.Args[1]
	}
	return mk(s, v.D.unboxFn(s), i)
}

func (v *Verifier) dynIs(i *Term, t types.Type) *Term {
	t = v.substT(t)
	tid := v.D.typeID(t)
	if strings.HasPrefix(i.Op, "zz_box_") && len(i.Args) == 2 {
		return tEq(i.Args[0], tid)
	}
	return mk("Bool", "=", mk("Int", "zz_dyn", i), tid)
}

func ifaceIsNil(i *Term) *Term {
	if i.Op == "zz_ifnil" {
		return tTrue
	}
	if strings.HasPrefix(i.Op, "zz_box_") {
		return tFalse
	}
	return mk("Bool", "=", mk("Int", "zz_dyn", i), intLit(0))
}
