package main

// Replay of a solver counterexample on the real code, for the one family where a model is a complete concrete
// input: the coercer functions (func(data any) (any, error)) - conf.DefaultCoercers.* and the numeric adapter
// closures of package zog. Steps: (1) ask the solver for the value of `data` in its model, (2) build that Go value
// in an in-package test injected with -overlay into the repository under check and call the real function,
// (3) assert the observed result into the failed query: if (assumptions, input = concrete, result = observed,
// not goal) is still satisfiable, the real code violates the clause on that input -> the violation is replayed.

import (
	"bytes"
	"context"
	"encoding/json"
	"fmt"
	"go/types"
	"math"
	"os"
	"os/exec"
	"path/filepath"
	"regexp"
	"strconv"
	"strings"
	"time"
)

type replayTarget struct {
	pkgDir string // relative to repo
	pkg    string
	expr   string // Go expression of type func(any) (any, error)
}

func coercerTarget(fn string) *replayTarget {
	switch {
	case strings.HasPrefix(fn, "conf.var:DefaultCoercers."):
		return &replayTarget{"conf", "conf", "DefaultCoercers." + strings.TrimPrefix(fn, "conf.var:DefaultCoercers.")}
	case fn == "zog.Int64$1":
		return &replayTarget{".", "zog", "Int64().coercer"}
	case fn == "zog.Int32$1":
		return &replayTarget{".", "zog", "Int32().coercer"}
	case fn == "zog.Float32$1":
		return &replayTarget{".", "zog", "Float32().coercer"}
	}
	return nil
}

var fpRe = regexp.MustCompile(`\(fp #b([01]) #[bx]([0-9a-fA-F]+) #[bx]([0-9a-fA-F]+)\)`)

// goLiteral renders an SMT value of the given Go type as a Go expression; ok=false if not representable.
func goLiteral(ty types.Type, smt string) (string, bool) {
	smt = strings.TrimSpace(smt)
	b, isBasic := ty.Underlying().(*types.Basic)
	if !isBasic {
		return "", false
	}
	switch {
	case b.Info()&types.IsString != 0:
		if strings.HasPrefix(smt, "\"") {
			s := smt[1 : len(smt)-1]
			s = strings.ReplaceAll(s, "\"\"", "\"")
			// SMT-LIB \u{..} escapes
			s = regexp.MustCompile(`\\u\{([0-9a-fA-F]+)\}`).ReplaceAllStringFunc(s, func(m string) string {
				n, _ := strconv.ParseInt(m[3:len(m)-1], 16, 32)
				return string(rune(n))
			})
			return fmt.Sprintf("%s(%q)", ty.String(), s), true
		}
	case b.Info()&types.IsBoolean != 0:
		if smt == "true" || smt == "false" {
			return fmt.Sprintf("%s(%s)", ty.String(), smt), true
		}
	case b.Info()&types.IsInteger != 0:
		n := strings.NewReplacer("(", "", ")", "", " ", "").Replace(smt)
		if _, err := strconv.ParseInt(n, 10, 64); err == nil {
			return fmt.Sprintf("%s(%s)", ty.String(), n), true
		}
		if _, err := strconv.ParseUint(n, 10, 64); err == nil {
			return fmt.Sprintf("%s(%s)", ty.String(), n), true
		}
	case b.Info()&types.IsFloat != 0:
		if m := fpRe.FindStringSubmatch(smt); m != nil {
			bits := m[1] + toBits(m[2], smt, 1) + toBits(m[3], smt, 2)
			u, err := strconv.ParseUint(bits, 2, 64)
			if err == nil {
				if b.Kind() == types.Float32 {
					return fmt.Sprintf("math.Float32frombits(0x%x)", uint32(u)), true
				}
				return fmt.Sprintf("math.Float64frombits(0x%x)", u), true
			}
		}
		switch {
		case strings.Contains(smt, "NaN"):
			return ty.String() + "(math.NaN())", true
		case strings.Contains(smt, "+oo"):
			return ty.String() + "(math.Inf(1))", true
		case strings.Contains(smt, "-oo"):
			return ty.String() + "(math.Inf(-1))", true
		case strings.Contains(smt, "+zero"):
			return ty.String() + "(0)", true
		case strings.Contains(smt, "-zero"):
			return ty.String() + "(math.Copysign(0, -1))", true
		}
	}
	return "", false
}

// toBits converts the k-th (#b... or #x...) literal of an (fp ...) value to a binary string.
func toBits(digits, whole string, k int) string {
	// find whether the k-th field was given in hex
	fields := regexp.MustCompile(`#([bx])([0-9a-fA-F]+)`).FindAllStringSubmatch(whole, -1)
	if k < len(fields) && fields[k][1] == "x" {
		var sb strings.Builder
		for _, c := range fields[k][2] {
			n, _ := strconv.ParseUint(string(c), 16, 8)
			sb.WriteString(fmt.Sprintf("%04b", n))
		}
		return sb.String()
	}
	return digits
}

func runSolverText(text string, timeoutS int) string {
	f, err := os.CreateTemp("", "govc-replay-*.smt2")
	if err != nil {
		return ""
	}
	defer os.Remove(f.Name())
	f.WriteString(text)
	f.Close()
	ctx, cancel := context.WithTimeout(context.Background(), time.Duration(timeoutS+2)*time.Second)
	defer cancel()
	cmd := exec.CommandContext(ctx, "z3-new", fmt.Sprintf("-T:%d", timeoutS), f.Name())
	var out bytes.Buffer
	cmd.Stdout = &out
	cmd.Stderr = &out
	cmd.Run()
	return out.String()
}

// getValues returns the solver's values for the given terms in a model of the query (nil on failure).
func getValues(query string, terms []string) map[string]string {
	q := strings.Replace(query, "(check-sat)", "", -1) + "(check-sat)\n(get-value (" + strings.Join(terms, " ") + "))\n"
	out := runSolverText(q, 10)
	if !strings.HasPrefix(strings.TrimSpace(out), "sat") {
		return nil
	}
	body := out[strings.Index(out, "\n")+1:]
	res := map[string]string{}
	// parse ((term value) (term value) ...): match each requested term textually
	for _, t := range terms {
		i := strings.Index(body, "("+t+" ")
		if i < 0 {
			continue
		}
		j := i + len(t) + 2
		depth, k := 0, j
		for k < len(body) {
			c := body[k]
			if c == '(' {
				depth++
			} else if c == ')' {
				if depth == 0 {
					break
				}
				depth--
			}
			k++
		}
		res[t] = strings.TrimSpace(body[j:k])
	}
	return res
}

type observed struct {
	Type  string `json:"type"`
	Bits  string `json:"bits"`
	Str   string `json:"str"`
	Bool  bool   `json:"bool"`
	Int   string `json:"int"`
	IsNil bool   `json:"nil"`
	Err   bool   `json:"err"`
	ErrS  string `json:"errs"`
	Panic string `json:"panic"`
}

const replayTestTmpl = `package %s

import (
	"encoding/json"
	"fmt"
	"math"
	"testing"
)

var _ = math.NaN

func TestZZGovcReplay(t *testing.T) {
	type obs struct {
		Type  string ` + "`json:\"type\"`" + `
		Bits  string ` + "`json:\"bits\"`" + `
		Str   string ` + "`json:\"str\"`" + `
		Bool  bool   ` + "`json:\"bool\"`" + `
		Int   string ` + "`json:\"int\"`" + `
		IsNil bool   ` + "`json:\"nil\"`" + `
		Err   bool   ` + "`json:\"err\"`" + `
		ErrS  string ` + "`json:\"errs\"`" + `
		Panic string ` + "`json:\"panic\"`" + `
	}
	var o obs
	func() {
		defer func() {
			if r := recover(); r != nil {
				o.Panic = fmt.Sprint(r)
			}
		}()
		var data any = %s
		res, err := (%s)(data)
		o.Type = fmt.Sprintf("%%T", res)
		o.IsNil = res == nil
		if err != nil {
			o.Err, o.ErrS = true, err.Error()
		}
		switch x := res.(type) {
		case int:
			o.Int = fmt.Sprint(x)
		case int64:
			o.Int = fmt.Sprint(x)
		case int32:
			o.Int = fmt.Sprint(x)
		case float64:
			o.Bits = fmt.Sprintf("%%064b", math.Float64bits(x))
		case float32:
			o.Bits = fmt.Sprintf("%%032b", math.Float32bits(x))
		case string:
			o.Str = x
		case bool:
			o.Bool = x
		}
	}()
	b, _ := json.Marshal(o)
	fmt.Println("GOVC-REPLAY " + string(b))
}
`

// replayStringFunc: the same three steps for a func(string) string (zconst.NotIssueCode).
func replayStringFunc(o *Obligation, query, repo, pkgDir, pkg, expr, param string) (bool, map[string]any) {
	rep := map[string]any{}
	pt, ok := o.Params[param]
	if !ok || pt.Sort != "String" || len(o.Results) != 1 {
		return false, nil
	}
	vals := getValues(query, []string{pt.String()})
	if vals == nil {
		return false, nil
	}
	lit, ok := goLiteral(types.Typ[types.String], vals[pt.String()])
	if !ok {
		return false, nil
	}
	rep["input"] = lit
	dir, err := os.MkdirTemp("", "govc-replay-")
	if err != nil {
		return false, rep
	}
	defer os.RemoveAll(dir)
	src := fmt.Sprintf("package %s\n\nimport (\n\t\"fmt\"\n\t\"testing\"\n)\n\nfunc TestZZGovcReplay(t *testing.T) {\n\tfmt.Printf(\"GOVC-REPLAY %%q\\n\", %s(%s))\n}\n", pkg, expr, lit)
	testFile := filepath.Join(dir, "zz_govc_replay_test.go")
	os.WriteFile(testFile, []byte(src), 0o644)
	full := filepath.Join(repo, pkgDir)
	ov, _ := json.Marshal(map[string]any{"Replace": map[string]string{filepath.Join(full, "zz_govc_replay_test.go"): testFile}})
	ovFile := filepath.Join(dir, "ov.json")
	os.WriteFile(ovFile, ov, 0o644)
	ctx, cancel := context.WithTimeout(context.Background(), 120*time.Second)
	defer cancel()
	cmd := exec.CommandContext(ctx, "go", "test", "-overlay", ovFile, "-vet=off", "-v", "-count=1", "-timeout", "60s", "-run", "^TestZZGovcReplay$", ".")
	cmd.Dir = full
	cmd.Env = append(os.Environ(), "GOFLAGS=-mod=mod", "GOPROXY=off", "GOSUMDB=off", "GOTOOLCHAIN=local")
	var out bytes.Buffer
	cmd.Stdout = &out
	cmd.Stderr = &out
	cmd.Run()
	rep["test_source"] = src
	rep["test_package_dir"] = pkgDir
	obs := ""
	found := false
	for _, l := range strings.Split(out.String(), "\n") {
		if strings.HasPrefix(l, "GOVC-REPLAY ") {
			if u, err := strconv.Unquote(strings.TrimPrefix(l, "GOVC-REPLAY ")); err == nil {
				obs, found = u, true
			}
		}
	}
	if !found {
		rep["replay_output"] = firstLines(out.String(), 12)
		return false, rep
	}
	rep["observed"] = obs
	smtStr := func(x string) string { return "\"" + strings.ReplaceAll(x, "\"", "\"\"") + "\"" }
	confirm := strings.Replace(query, "(check-sat)", "", -1)
	confirm += fmt.Sprintf("(assert (= %s %s))\n(assert (= %s %s))\n(check-sat)\n", pt.String(), vals[pt.String()], o.Results[0].String(), smtStr(obs))
	res := strings.TrimSpace(runSolverText(confirm, 20))
	rep["confirm_query_result"] = firstLines(res, 1)
	return strings.HasPrefix(res, "sat"), rep
}

// interpretedOnly: the term uses no uninterpreted specification function (whose freedom could make the confirmation
// query satisfiable for reasons the real code does not share); boxing / unboxing and the type tag are structural.
func interpretedOnly(t *Term) bool {
	if strings.HasPrefix(t.Op, "zz_") && len(t.Args) > 0 {
		switch {
		case t.Op == "zz_dyn", strings.HasPrefix(t.Op, "zz_box_"), strings.HasPrefix(t.Op, "zz_unbox_"),
			t.Op == "zz_tdiv", t.Op == "zz_tmod", t.Op == "zz_mkslice", strings.HasPrefix(t.Op, "zz_sl_"):
		default:
			return false
		}
	}
	for _, a := range t.Args {
		if !interpretedOnly(a) {
			return false
		}
	}
	return true
}

// replayCoercer implements the three steps; returns (confirmed, report fields).
func replayCoercer(o *Obligation, query string, repo string) (bool, map[string]any) {
	rep := map[string]any{}
	if !interpretedOnly(o.Goal) {
		return false, map[string]any{"replay_skipped": "the clause mentions an uninterpreted specification function; a concrete run cannot confirm it"}
	}
	tg := coercerTarget(o.Func)
	if tg == nil || o.Params == nil || o.D == nil {
		return false, nil
	}
	data, ok := o.Params["data"]
	if !ok || data.Sort != "Iface" {
		return false, nil
	}
	dt := data.String()
	vals := getValues(query, []string{"(zz_dyn " + dt + ")"})
	if vals == nil {
		return false, nil
	}
	dyn, err := strconv.Atoi(strings.NewReplacer("(", "", ")", "", " ", "").Replace(vals["(zz_dyn "+dt+")"]))
	if err != nil {
		return false, nil
	}
	var goTy types.Type
	for ts, id := range o.D.tids {
		if id == dyn {
			goTy = o.D.tidTy[ts]
		}
	}
	lit := "nil"
	inputEq := fmt.Sprintf("(= (zz_dyn %s) 0)", dt)
	if dyn != 0 {
		if goTy == nil {
			return false, nil
		}
		sort := o.D.sortOf(goTy)
		un := "(" + "zz_unbox_" + sortTag(sort) + " " + dt + ")"
		if !strings.Contains(query, "zz_unbox_"+sortTag(sort)) {
			return false, nil
		}
		// the input must be a value of its Go type: fixed-width integers in range
		if b, ok := goTy.Underlying().(*types.Basic); ok && b.Info()&types.IsInteger != 0 {
			lo, hi, okr := intRange(b)
			if strings.HasPrefix(lo, "-") {
				lo = "(- " + lo[1:] + ")"
			}
			if okr {
				query = strings.Replace(query, "(check-sat)", fmt.Sprintf("(assert (=> (= (zz_dyn %s) %d) (and (<= %s %s) (<= %s %s))))\n(check-sat)", dt, dyn, lo, un, un, hi), 1)
			}
		}
		v2 := getValues(query+"\n", []string{"(zz_dyn " + dt + ")", un})
		if v2 == nil || v2[un] == "" {
			return false, nil
		}
		l, ok := goLiteral(goTy, v2[un])
		if !ok {
			return false, nil
		}
		lit = l
		inputEq = fmt.Sprintf("(and (= (zz_dyn %s) %d) (= %s %s))", dt, dyn, un, v2[un])
	}
	rep["input"] = lit
	// run the real function
	dir, err := os.MkdirTemp("", "govc-replay-")
	if err != nil {
		return false, rep
	}
	defer os.RemoveAll(dir)
	src := fmt.Sprintf(replayTestTmpl, tg.pkg, lit, tg.expr)
	testFile := filepath.Join(dir, "zz_govc_replay_test.go")
	os.WriteFile(testFile, []byte(src), 0o644)
	pkgDir := filepath.Join(repo, tg.pkgDir)
	ov, _ := json.Marshal(map[string]any{"Replace": map[string]string{filepath.Join(pkgDir, "zz_govc_replay_test.go"): testFile}})
	ovFile := filepath.Join(dir, "ov.json")
	os.WriteFile(ovFile, ov, 0o644)
	ctx, cancel := context.WithTimeout(context.Background(), 120*time.Second)
	defer cancel()
	cmd := exec.CommandContext(ctx, "go", "test", "-overlay", ovFile, "-vet=off", "-v", "-count=1", "-timeout", "60s", "-run", "^TestZZGovcReplay$", ".")
	cmd.Dir = pkgDir
	cmd.Env = append(os.Environ(), "GOFLAGS=-mod=mod", "GOPROXY=off", "GOSUMDB=off", "GOTOOLCHAIN=local")
	var out bytes.Buffer
	cmd.Stdout = &out
	cmd.Stderr = &out
	cmd.Run()
	rep["test_source"] = src
	rep["test_package_dir"] = tg.pkgDir
	line := ""
	for _, l := range strings.Split(out.String(), "\n") {
		if strings.HasPrefix(l, "GOVC-REPLAY ") {
			line = strings.TrimPrefix(l, "GOVC-REPLAY ")
		}
	}
	if line == "" {
		rep["replay_output"] = firstLines(out.String(), 12)
		return false, rep
	}
	var ob observed
	if json.Unmarshal([]byte(line), &ob) != nil {
		return false, rep
	}
	rep["observed"] = line
	if ob.Panic != "" {
		// a panic on a concrete input is itself the failing input for a safety obligation
		return strings.HasPrefix(o.Kind, "safety") || o.Kind == "pre", rep
	}
	if len(o.Results) != 2 {
		return false, rep
	}
	r0, r1 := o.Results[0].String(), o.Results[1].String()
	var eqs []string
	eqs = append(eqs, inputEq)
	if ob.Err {
		eqs = append(eqs, fmt.Sprintf("(not (= (zz_dyn %s) 0))", r1))
	} else {
		eqs = append(eqs, fmt.Sprintf("(= (zz_dyn %s) 0)", r1))
	}
	if ob.IsNil {
		eqs = append(eqs, fmt.Sprintf("(= (zz_dyn %s) 0)", r0))
	} else {
		// find the type id of the observed result type
		rid, rsort := 0, ""
		for ts, id := range o.D.tids {
			if ty := o.D.tidTy[ts]; ty != nil && ty.String() == ob.Type {
				rid, rsort = id, o.D.sortOf(ty)
			}
		}
		if rid == 0 {
			return false, rep
		}
		un := "(zz_unbox_" + sortTag(rsort) + " " + r0 + ")"
		val := ""
		switch ob.Type {
		case "int", "int64", "int32":
			val = ob.Int
			if strings.HasPrefix(val, "-") {
				val = "(- " + val[1:] + ")"
			}
		case "float64":
			val = fmt.Sprintf("(fp #b%s #b%s #b%s)", ob.Bits[:1], ob.Bits[1:12], ob.Bits[12:])
		case "float32":
			val = fmt.Sprintf("(fp #b%s #b%s #b%s)", ob.Bits[:1], ob.Bits[1:9], ob.Bits[9:])
		case "string":
			val = "\"" + strings.ReplaceAll(ob.Str, "\"", "\"\"") + "\""
		case "bool":
			val = fmt.Sprint(ob.Bool)
		default:
			return false, rep
		}
		if !strings.Contains(query, "zz_unbox_"+sortTag(rsort)) {
			return false, rep
		}
		eqs = append(eqs, fmt.Sprintf("(and (= (zz_dyn %s) %d) (= %s %s))", r0, rid, un, val))
	}
	confirm := strings.Replace(query, "(check-sat)", "", -1)
	for _, e := range eqs {
		confirm += "(assert " + e + ")\n"
	}
	confirm += "(check-sat)\n"
	res := strings.TrimSpace(runSolverText(confirm, 20))
	rep["confirm_query_result"] = firstLines(res, 1)
	_ = math.Pi
	return strings.HasPrefix(res, "sat"), rep
}
