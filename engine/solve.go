package main

import (
	"bytes"
	"context"
	"fmt"
	"os"
	"os/exec"
	"path/filepath"
	"strings"
	"sync"
	"time"
)

type SolveResult struct {
	Obl     *Obligation
	Status  string // unsat sat unknown error
	Backend string
	TimeS   float64
	Model   string
	File    string
	Tried   []string
	Output  string
}

func (o *Obligation) smtGround() string { return o.smtX(true) }

func (o *Obligation) smt() string { return o.smtX(os.Getenv("GOVC_GROUND") != "") }

func (o *Obligation) smtX(ground bool) string {
	var sb strings.Builder
	sb.WriteString("(set-option :produce-models true)\n(set-logic ALL)\n")
	// body first (to know which axioms are relevant)
	var body strings.Builder
	for _, f := range o.D.facts {
		f.write(&body)
		body.WriteByte(' ')
	}
	for _, a := range o.Assume {
		a.write(&body)
		body.WriteByte(' ')
	}
	o.Goal.write(&body)
	decls := o.D.textFor(body.String())
	if ground {
		var keep []string
		for _, l := range strings.Split(decls, "\n") {
			if strings.HasPrefix(l, "(assert") && strings.Contains(l, "forall") {
				continue
			}
			keep = append(keep, l)
		}
		decls = strings.Join(keep, "\n")
	}
	sb.WriteString(decls)
	for _, f := range o.D.facts {
		if ground && strings.Contains(f.Op, "forall") {
			continue
		}
		sb.WriteString("(assert ")
		f.write(&sb)
		sb.WriteString(")\n")
	}
	for _, a := range o.Assume {
		if ground && strings.Contains(a.String(), "forall") {
			continue
		}
		sb.WriteString("(assert ")
		a.write(&sb)
		sb.WriteString(")\n")
	}
	sb.WriteString("; goal: " + strings.ReplaceAll(o.Src, "\n", " ") + "\n")
	sb.WriteString("(assert (not ")
	o.Goal.write(&sb)
	sb.WriteString("))\n(check-sat)\n")
	return sb.String()
}

type backend struct {
	name string
	args func(file string, timeoutS int) []string
}

var backends = []backend{
	{"z3-new", func(f string, t int) []string { return []string{"z3-new", fmt.Sprintf("-T:%d", t), f} }},
	{"cvc5", func(f string, t int) []string {
		return []string{"cvc5", "--lang=smt2", fmt.Sprintf("--tlimit=%d", t*1000), "--strings-exp", f}
	}},
	{"z3", func(f string, t int) []string { return []string{"z3", fmt.Sprintf("-T:%d", t), f} }},
}

func runBackend(b backend, file string, timeoutS int, wantModel bool) (string, string, float64) {
	ctx, cancel := context.WithTimeout(context.Background(), time.Duration(timeoutS+2)*time.Second)
	defer cancel()
	args := b.args(file, timeoutS)
	start := time.Now()
	cmd := exec.CommandContext(ctx, args[0], args[1:]...)
	var out bytes.Buffer
	cmd.Stdout = &out
	cmd.Stderr = &out
	_ = cmd.Run()
	el := time.Since(start).Seconds()
	s := out.String()
	first := strings.TrimSpace(strings.SplitN(s, "\n", 2)[0])
	switch first {
	case "sat", "unsat", "unknown":
		return first, s, el
	case "timeout":
		return "unknown", s, el
	}
	if strings.Contains(s, "timeout") || ctx.Err() != nil {
		return "unknown", s, el
	}
	return "error", s, el
}

func getModel(b backend, file string, timeoutS int) string {
	// re-run with (get-model) appended
	data, err := os.ReadFile(file)
	if err != nil {
		return ""
	}
	mf := strings.TrimSuffix(file, ".smt2") + ".model.smt2"
	os.WriteFile(mf, append(data, []byte("(get-model)\n")...), 0o644)
	defer os.Remove(mf)
	_, out, _ := runBackend(b, mf, timeoutS, true)
	if i := strings.Index(out, "\n"); i >= 0 {
		return out[i+1:]
	}
	return ""
}

// solveAll discharges obligations in parallel. mode: "quick" (first definite answer wins, sequential fallback)
// or "thorough" (all back ends run; none may say sat; at least one unsat).
func solveAll(obls []*Obligation, dir string, jobs int, timeoutS int, thorough bool) []*SolveResult {
	os.MkdirAll(dir, 0o755)
	res := make([]*SolveResult, len(obls))
	var wg sync.WaitGroup
	sem := make(chan struct{}, jobs)
	for i, o := range obls {
		wg.Add(1)
		go func(i int, o *Obligation) {
			defer wg.Done()
			sem <- struct{}{}
			defer func() { <-sem }()
			r := &SolveResult{Obl: o}
			res[i] = r
			if o.Goal.Op == "true" && o.Expect == "unsat" {
				r.Status, r.Backend = "unsat", "syntactic"
				return
			}
			file := filepath.Join(dir, fmt.Sprintf("o%05d.smt2", i))
			r.File = file
			if o.Expect == "sat" {
				// vacuity check: the ground part of the assumptions must be satisfiable (quantified facts dropped,
				// otherwise no solver can answer sat); one back end, short timeout
				os.WriteFile(file, []byte(o.smtGround()), 0o644)
				st, out, el := runBackend(backends[0], file, 5, false)
				r.TimeS, r.Status, r.Backend = el, st, backends[0].name
				r.Tried = append(r.Tried, fmt.Sprintf("%s=%s(%.2fs)", backends[0].name, st, el))
				if st == "error" {
					r.Output = firstLines(out, 3)
				}
				if st == "sat" || st == "unknown" {
					os.Remove(file)
				}
				return
			}
			if err := os.WriteFile(file, []byte(o.smt()), 0o644); err != nil {
				r.Status = "error"
				r.Output = err.Error()
				return
			}
			timeoutS := timeoutS
			if knownObl[o.Name] && timeoutS > 3 {
				timeoutS = 3
			}
			r.Status = "unknown"
			// ground core first: dropping the quantified assumptions only weakens the hypotheses, so unsat is a proof;
			// it is decided in milliseconds where the full query costs seconds (the engine instantiates the
			// quantified facts it needs itself)
			if full := o.smt(); strings.Contains(full, "forall") {
				gf := strings.TrimSuffix(file, ".smt2") + ".g0.smt2"
				if err := os.WriteFile(gf, []byte(o.smtGround()), 0o644); err == nil {
					st, _, el := runBackend(backends[0], gf, 2, false)
					r.TimeS += el
					os.Remove(gf)
					if st == "unsat" {
						r.Status, r.Backend = "unsat", backends[0].name+"(ground)"
						r.Tried = append(r.Tried, fmt.Sprintf("%s-ground=unsat(%.2fs)", backends[0].name, el))
					}
				}
			}
			for _, b := range backends {
				if r.Status == "unsat" && !thorough {
					break
				}
				st, out, el := runBackend(b, file, timeoutS, false)
				r.TimeS += el
				r.Tried = append(r.Tried, fmt.Sprintf("%s=%s(%.2fs)", b.name, st, el))
				if st == "error" {
					r.Output += b.name + ": " + firstLines(out, 3) + "\n"
					continue
				}
				if st == "sat" {
					r.Status, r.Backend = "sat", b.name
					if o.Expect == "unsat" {
						r.Model = getModel(b, file, timeoutS)
					}
					break
				}
				if st == "unsat" {
					if r.Status != "sat" {
						r.Status, r.Backend = "unsat", b.name
					}
					if !thorough {
						break
					}
					continue
				}
			}
			// ground core: dropping quantified assumptions only weakens the hypotheses, so unsat here
			//    is a proof; it is also much faster and immune to matching loops
			if r.Status == "unknown" {
				gf := strings.TrimSuffix(file, ".smt2") + ".g.smt2"
				if err := os.WriteFile(gf, []byte(o.smtGround()), 0o644); err == nil {
					st, _, el := runBackend(backends[0], gf, 3, false)
					r.TimeS += el
					os.Remove(gf)
					if st == "unsat" {
						r.Status, r.Backend = "unsat", backends[0].name+"(ground)"
						r.Tried = append(r.Tried, fmt.Sprintf("%s-ground=unsat(%.2fs)", backends[0].name, el))
						r.Output = ""
					}
				}
			}
			if r.Status == "unknown" && r.Output != "" && !strings.Contains(strings.Join(r.Tried, " "), "unknown") {
				r.Status = "error"
			}
			if r.Status == "unknown" && o.Expect == "unsat" {
				// candidate counterexample: drop the quantified assumptions and ask again (a model of the ground part)
				os.Setenv("GOVC_GROUND_ONE", "1")
				gf := strings.TrimSuffix(file, ".smt2") + ".ground.smt2"
				if err := os.WriteFile(gf, []byte(o.smtGround()), 0o644); err == nil {
					st, _, _ := runBackend(backends[0], gf, 5, false)
					if st == "sat" {
						r.Model = "; candidate model (quantified assumptions dropped)\n" + getModel(backends[0], gf, 5)
					}
					os.Remove(gf)
				}
			}
			if os.Getenv("GOVC_KEEPALL") == "" && (r.Status == o.Expect || (o.Expect == "sat" && r.Status == "unknown")) {
				os.Remove(file)
			}
		}(i, o)
	}
	wg.Wait()
	return res
}

func firstLines(s string, n int) string {
	ls := strings.Split(s, "\n")
	if len(ls) > n {
		ls = ls[:n]
	}
	return strings.Join(ls, " | ")
}
