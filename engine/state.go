package main

import (
	"fmt"
	"go/types"
	"strings"

	"golang.org/x/tools/go/ssa"
)

type hw struct {
	addr, val *Term
	reg       *regionEntry // non-nil: a region havoc (addr/val unused)
}

// regionEntry records that a region of the heap component was forgotten: nb is the whole array right after
// the havoc (related to the array before by a frame axiom); pred classifies an address syntactically:
// 1 = inside the region, 0 = provably outside, -1 = unknown.
type regionEntry struct {
	nb   *Term
	pred func(addr *Term) int
}

// HeapArr is one component of the heap: an SMT array IdxSort -> ElSort,
// kept as a base array plus a list of writes so that reads can be resolved syntactically.
type HeapArr struct {
	Key     string
	IdxSort string
	ElSort  string
	Base    *Term
	Writes  []hw
}

func (h *HeapArr) clone() *HeapArr {
	c := *h
	c.Writes = append([]hw(nil), h.Writes...)
	return &c
}

func (h *HeapArr) arraySort() string { return "(Array " + h.IdxSort + " " + h.ElSort + ")" }

func (h *HeapArr) arrayUpTo(n int) *Term {
	t := h.Base
	start := 0
	for i := n - 1; i >= 0; i-- {
		if h.Writes[i].reg != nil {
			t = h.Writes[i].reg.nb
			start = i + 1
			break
		}
	}
	for _, w := range h.Writes[start:n] {
		t = mk(h.arraySort(), "store", t, w.addr, w.val)
	}
	return t
}

func (h *HeapArr) arrayTerm() *Term { return h.arrayUpTo(len(h.Writes)) }

// regionHavoc forgets a region; reads at addresses provably outside the region still resolve syntactically.
func (h *HeapArr) regionHavoc(nb *Term, pred func(addr *Term) int) {
	h.Writes = append(h.Writes, hw{reg: &regionEntry{nb: nb, pred: pred}})
}

func predAll(*Term) int { return 1 }

func (h *HeapArr) read(addr *Term) *Term {
	for i := len(h.Writes) - 1; i >= 0; i-- {
		w := h.Writes[i]
		if w.reg != nil {
			switch w.reg.pred(addr) {
			case 0:
				continue // provably outside the forgotten region: value is what it was before
			default:
				return mk(h.ElSort, "select", h.arrayUpTo(i+1), addr)
			}
		}
		if termEq(w.addr, addr) {
			return w.val
		}
		if d, ok := provablyDistinct(w.addr, addr); ok && d {
			continue
		}
		// unknown aliasing: full term over the prefix
		return mk(h.ElSort, "select", h.arrayUpTo(i+1), addr)
	}
	return mk(h.ElSort, "select", h.Base, addr)
}

func (h *HeapArr) write(addr, val *Term) {
	h.Writes = append(h.Writes, hw{addr: addr, val: val})
}

type deferRec struct {
	tg *callTarget
}

type nameRef struct {
	val    ssa.Value
	isAddr bool
}

type retPoint struct {
	block      *ssa.BasicBlock
	idx        int
	bind       ssa.Value // value to bind results to (may be nil)
	isDeferRun bool
}

type Frame struct {
	fn       *ssa.Function
	vals     map[ssa.Value]*Term
	tuples   map[ssa.Value][]*Term
	prev     *ssa.BasicBlock
	defers   []deferRec
	ret      *retPoint
	loops    map[*ssa.BasicBlock]*loopCut
	typeArgs map[string]types.Type // for instantiated generics (unused for origin bodies)
	closure  *Term                 // closure term for free var binding
	fvs      []*Term
	// contract bookkeeping for the top frame
	depth int
	iters map[ssa.Value]*iterState
	names map[string]nameRef
}

type iterState struct {
	m       *Term
	mapT    *types.Map
	visited *Term // Array K Bool
	count   *Term // number of keys produced so far (zz_n in loop contracts)
	dom0    *Term // the map's key set when the range statement started
	isStr   bool
	str     *Term
	pos     *Term
}

type loopCut struct {
	header  *ssa.BasicBlock
	blocks  map[*ssa.BasicBlock]bool
	oldHeap map[string]*HeapArr
}

func (f *Frame) clone() *Frame {
	c := *f
	c.vals = make(map[ssa.Value]*Term, len(f.vals))
	for k, v := range f.vals {
		c.vals[k] = v
	}
	c.tuples = make(map[ssa.Value][]*Term, len(f.tuples))
	for k, v := range f.tuples {
		c.tuples[k] = v
	}
	c.defers = append([]deferRec(nil), f.defers...)
	c.loops = make(map[*ssa.BasicBlock]*loopCut, len(f.loops))
	for k, v := range f.loops {
		c.loops[k] = v
	}
	c.names = make(map[string]nameRef, len(f.names))
	for k, v := range f.names {
		c.names[k] = v
	}
	c.iters = make(map[ssa.Value]*iterState, len(f.iters))
	for k, v := range f.iters {
		cp := *v
		c.iters[k] = &cp
	}
	return &c
}

type State struct {
	heap   map[string]*HeapArr
	pc     []*Term
	ghost  map[string]*Term
	frames []*Frame
	// snapshot at function entry (for old())
	entry        *State
	dead         bool
	havocEpoch   int
	released     []*Term
	releasedPool []string // the pool each released object went into (parallel to released)
	underHavoc   []*Term
	qfacts       []qfact
	qdone        map[string]bool
	idxTerms     []*Term
	colW         []wrec   // writes performed on this path while collecting a loop's write set
	globalHavocs []modLoc // heap-wide havocs already performed (replayed on heap components created later)
}

func (s *State) clone() *State {
	c := &State{heap: make(map[string]*HeapArr, len(s.heap)), ghost: make(map[string]*Term, len(s.ghost)), entry: s.entry}
	for k, v := range s.heap {
		c.heap[k] = v.clone()
	}
	for k, v := range s.ghost {
		c.ghost[k] = v
	}
	c.pc = append([]*Term(nil), s.pc...)
	c.havocEpoch = s.havocEpoch
	c.qfacts = append([]qfact(nil), s.qfacts...)
	c.colW = append([]wrec(nil), s.colW...)
	c.idxTerms = append([]*Term(nil), s.idxTerms...)
	c.globalHavocs = append([]modLoc(nil), s.globalHavocs...)
	c.qdone = make(map[string]bool, len(s.qdone))
	for k, v := range s.qdone {
		c.qdone[k] = v
	}
	c.released = append([]*Term(nil), s.released...)
	c.releasedPool = append([]string(nil), s.releasedPool...)
	for _, f := range s.frames {
		c.frames = append(c.frames, f.clone())
	}
	return c
}

// snapshot copies heap and ghost only (for old-state evaluation).
func (s *State) snapshot() *State {
	c := &State{heap: make(map[string]*HeapArr, len(s.heap)), ghost: make(map[string]*Term, len(s.ghost))}
	for k, v := range s.heap {
		c.heap[k] = v.clone()
	}
	for k, v := range s.ghost {
		c.ghost[k] = v
	}
	if len(s.frames) > 0 {
		// the bindings of the top frame belong to the snapshot: a local that is reassigned later, or a map iterator
		// that advances, must not change what a fact registered now says when it is instantiated later
		c.frames = []*Frame{s.frames[len(s.frames)-1].specCopy()}
	}
	c.globalHavocs = append([]modLoc(nil), s.globalHavocs...)
	return c
}

func (f *Frame) specCopy() *Frame {
	c := *f
	c.vals = make(map[ssa.Value]*Term, len(f.vals))
	for k, v := range f.vals {
		c.vals[k] = v
	}
	c.names = make(map[string]nameRef, len(f.names))
	for k, v := range f.names {
		c.names[k] = v
	}
	if f.iters != nil {
		c.iters = make(map[ssa.Value]*iterState, len(f.iters))
		for k, v := range f.iters {
			cp := *v
			c.iters[k] = &cp
		}
	}
	return &c
}

func (s *State) top() *Frame { return s.frames[len(s.frames)-1] }

func (s *State) assume(t *Term) {
	if t.Op == "true" {
		return
	}
	if t.Op == "and" {
		for _, a := range t.Args {
			s.assume(a)
		}
		return
	}
	// g => (a and b): one assumption per conjunct, so that the quantifier-free conjuncts survive in the ground core
	if t.Op == "=>" && len(t.Args) == 2 && t.Args[1].Op == "and" {
		for _, a := range t.Args[1].Args {
			s.assume(mk("Bool", "=>", t.Args[0], a))
		}
		return
	}
	s.pc = append(s.pc, t)
}

// ---- heap keys

func heapKeyForSort(sort string) string { return "h_" + sortTag(sort) }

// symbols

type Syms struct {
	n int
}

func (y *Syms) fresh(d *Decls, prefix, sort string) *Term {
	y.n++
	name := fmt.Sprintf("zz_%s_%d", sanitize(prefix), y.n)
	d.declConst(name, sort)
	return mk(sort, name)
}

// symNumber extracts the numeric suffix of generated symbols (for "created after mark" tests)
func symNumber(op string) (int, bool) {
	if !strings.HasPrefix(op, "zz_") {
		return 0, false
	}
	i := strings.LastIndex(op, "_")
	if i < 0 {
		return 0, false
	}
	var n int
	if _, err := fmt.Sscanf(op[i+1:], "%d", &n); err != nil {
		return 0, false
	}
	if fmt.Sprint(n) != op[i+1:] {
		return 0, false
	}
	return n, true
}

// mentionsAfter reports whether t mentions a generated symbol numbered > mark or a zz_new id >= newMark.
func mentionsAfter(t *Term, mark int, newMark int) bool {
	if len(t.Args) == 0 {
		if n, ok := symNumber(t.Op); ok && n > mark {
			return true
		}
		return false
	}
	if t.Op == "zz_new" {
		if k, ok := isIntLit(t.Args[0]); ok && int(k) >= newMark {
			return true
		}
	}
	for _, a := range t.Args {
		if mentionsAfter(a, mark, newMark) {
			return true
		}
	}
	return false
}
