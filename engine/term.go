package main

import (
	"fmt"
	"go/types"
	"sort"
	"strings"
)

// Term is an SMT-LIB term with its sort.
type Term struct {
	Op   string
	Args []*Term
	Sort string
}

func (t *Term) String() string {
	if len(t.Args) == 0 {
		return t.Op
	}
	var sb strings.Builder
	t.write(&sb)
	return sb.String()
}

func (t *Term) write(sb *strings.Builder) {
	if len(t.Args) == 0 {
		sb.WriteString(t.Op)
		return
	}
	sb.WriteByte('(')
	sb.WriteString(t.Op)
	for _, a := range t.Args {
		sb.WriteByte(' ')
		a.write(sb)
	}
	sb.WriteByte(')')
}

func mk(sort, op string, args ...*Term) *Term { return &Term{Op: op, Args: args, Sort: sort} }

var (
	tTrue  = mk("Bool", "true")
	tFalse = mk("Bool", "false")
	tNilP  = mk("Ptr", "zz_nilptr")
	tNilI  = mk("Iface", "zz_ifnil")
	tNilF  = mk("Fn", "zz_fnnil")
)

func intLit(n int64) *Term {
	if n < 0 {
		return mk("Int", "-", mk("Int", fmt.Sprint(-n)))
	}
	return mk("Int", fmt.Sprint(n))
}

func bigLit(s string) *Term { // decimal string possibly negative
	if strings.HasPrefix(s, "-") {
		return mk("Int", "-", mk("Int", s[1:]))
	}
	return mk("Int", s)
}

func isIntLit(t *Term) (int64, bool) {
	if t.Sort != "Int" {
		return 0, false
	}
	if len(t.Args) == 0 {
		var n int64
		if _, err := fmt.Sscanf(t.Op, "%d", &n); err == nil && fmt.Sprint(n) == t.Op {
			return n, true
		}
		return 0, false
	}
	if t.Op == "-" && len(t.Args) == 1 {
		if n, ok := isIntLit(t.Args[0]); ok {
			return -n, true
		}
	}
	return 0, false
}

func strLit(s string) *Term {
	var sb strings.Builder
	sb.WriteByte('"')
	for _, b := range []byte(s) {
		switch {
		case b == '"':
			sb.WriteString(`""`)
		case b >= 0x20 && b < 0x7f && b != '\\':
			sb.WriteByte(b)
		default:
			fmt.Fprintf(&sb, `\u{%x}`, b)
		}
	}
	sb.WriteByte('"')
	return mk("String", sb.String())
}

func termEq(a, b *Term) bool {
	if a == b {
		return true
	}
	if a.Op != b.Op || len(a.Args) != len(b.Args) || a.Sort != b.Sort {
		return false
	}
	for i := range a.Args {
		if !termEq(a.Args[i], b.Args[i]) {
			return false
		}
	}
	return true
}

// ---- boolean helpers with light simplification

func tNot(a *Term) *Term {
	switch {
	case a == tTrue || a.Op == "true":
		return tFalse
	case a.Op == "false":
		return tTrue
	case a.Op == "not":
		return a.Args[0]
	}
	return mk("Bool", "not", a)
}

func tAnd(xs ...*Term) *Term {
	var out []*Term
	for _, x := range xs {
		if x.Op == "true" {
			continue
		}
		if x.Op == "false" {
			return tFalse
		}
		out = append(out, x)
	}
	if len(out) == 0 {
		return tTrue
	}
	if len(out) == 1 {
		return out[0]
	}
	return mk("Bool", "and", out...)
}

func tOr(xs ...*Term) *Term {
	var out []*Term
	for _, x := range xs {
		if x.Op == "false" {
			continue
		}
		if x.Op == "true" {
			return tTrue
		}
		out = append(out, x)
	}
	if len(out) == 0 {
		return tFalse
	}
	if len(out) == 1 {
		return out[0]
	}
	return mk("Bool", "or", out...)
}

func tImp(a, b *Term) *Term {
	if a.Op == "true" {
		return b
	}
	if a.Op == "false" || b.Op == "true" {
		return tTrue
	}
	return mk("Bool", "=>", a, b)
}

func tEq(a, b *Term) *Term {
	if termEq(a, b) {
		return tTrue
	}
	if r, ok := provablyDistinct(a, b); ok && r {
		return tFalse
	}
	return mk("Bool", "=", a, b)
}

func tIte(c, a, b *Term) *Term {
	if c.Op == "true" {
		return a
	}
	if c.Op == "false" {
		return b
	}
	if termEq(a, b) {
		return a
	}
	return mk(a.Sort, "ite", c, a, b)
}

func tAdd(a, b *Term) *Term {
	x, ok1 := isIntLit(a)
	y, ok2 := isIntLit(b)
	if ok1 && ok2 {
		return intLit(x + y)
	}
	if ok1 && x == 0 {
		return b
	}
	if ok2 && y == 0 {
		return a
	}
	return mk("Int", "+", a, b)
}

func tSub(a, b *Term) *Term {
	x, ok1 := isIntLit(a)
	y, ok2 := isIntLit(b)
	if ok1 && ok2 {
		return intLit(x - y)
	}
	if ok2 && y == 0 {
		return a
	}
	return mk("Int", "-", a, b)
}

func tCmp(op string, a, b *Term) *Term {
	x, ok1 := isIntLit(a)
	y, ok2 := isIntLit(b)
	if ok1 && ok2 {
		var r bool
		switch op {
		case "<":
			r = x < y
		case "<=":
			r = x <= y
		case ">":
			r = x > y
		case ">=":
			r = x >= y
		}
		if r {
			return tTrue
		}
		return tFalse
	}
	return mk("Bool", op, a, b)
}

// ---- pointer constructors

func pNew(k int) *Term          { return mk("Ptr", "zz_new", intLit(int64(k))) }
func pGlob(k int) *Term         { return mk("Ptr", "zz_glob", intLit(int64(k))) }
func pFld(b *Term, i int) *Term { return mk("Ptr", "zz_fld", b, intLit(int64(i))) }
func pElem(b, i *Term) *Term    { return mk("Ptr", "zz_elem", b, i) }
func isCtor(t *Term) bool {
	switch t.Op {
	case "zz_new", "zz_glob", "zz_fld", "zz_elem", "zz_nilptr", "zz_ext":
		return true
	}
	return false
}

// provablyDistinct: (distinct?, known?) purely syntactic.
func provablyDistinct(a, b *Term) (bool, bool) {
	if termEq(a, b) {
		return false, true
	}
	if a.Sort == "Int" {
		x, ok1 := isIntLit(a)
		y, ok2 := isIntLit(b)
		if ok1 && ok2 {
			return x != y, true
		}
		return false, false
	}
	if a.Sort == "String" {
		if len(a.Args) == 0 && len(b.Args) == 0 && strings.HasPrefix(a.Op, "\"") && strings.HasPrefix(b.Op, "\"") {
			return a.Op != b.Op, true
		}
		return false, false
	}
	if a.Sort == "Bool" {
		if (a.Op == "true" && b.Op == "false") || (a.Op == "false" && b.Op == "true") {
			return true, true
		}
		return false, false
	}
	if a.Sort != "Ptr" {
		return false, false
	}
	// an object allocated by this execution is not reachable from the entry state (assumption A4)
	if (rootOf(a).Op == "zz_new" && entryRooted(b)) || (rootOf(b).Op == "zz_new" && entryRooted(a)) {
		return true, true
	}
	if isCtor(a) && isCtor(b) {
		if a.Op != b.Op {
			return true, true
		}
		switch a.Op {
		case "zz_new", "zz_glob", "zz_ext":
			return provablyDistinct(a.Args[0], b.Args[0])
		case "zz_fld", "zz_elem":
			if d, ok := provablyDistinct(a.Args[1], b.Args[1]); ok && d {
				return true, true
			}
			if termEq(a.Args[1], b.Args[1]) {
				return provablyDistinct(a.Args[0], b.Args[0])
			}
			return false, false
		}
	}
	return false, false
}

// tFresh(p): p points into an object allocated since the verified function was entered: by the function itself
// (zz_new) or by one of its callees (zz_cfresh, asserted by callee postconditions on the root pointer).
func tFresh(p *Term) *Term {
	r := rootOf(p)
	if r.Op == "zz_new" {
		return tTrue
	}
	if isCtor(r) {
		return tFalse
	}
	return tOr(mk("Bool", "zz_isnew", p), mk("Bool", "zz_cfresh", r))
}

// tNotFresh(p): p existed on entry
func tNotFresh(p *Term) *Term {
	return tAnd(tNot(mk("Bool", "zz_isnew", p)), tNot(mk("Bool", "zz_cfresh", rootOf(p))))
}

// rootOf returns the root object of a pointer path if syntactically known.
func rootOf(p *Term) *Term {
	for p.Op == "zz_fld" || p.Op == "zz_elem" {
		p = p.Args[0]
	}
	return p
}

// ---- slice helpers

func mkSlice(base, off, ln, cp *Term) *Term { return mk("Slice", "zz_mkslice", base, off, ln, cp) }
func slField(s *Term, i int) *Term {
	if s.Op == "zz_mkslice" {
		return s.Args[i]
	}
	names := []string{"zz_sl_base", "zz_sl_off", "zz_sl_len", "zz_sl_cap"}
	srt := "Int"
	if i == 0 {
		srt = "Ptr"
	}
	return mk(srt, names[i], s)
}
func slBase(s *Term) *Term { return slField(s, 0) }
func slOff(s *Term) *Term  { return slField(s, 1) }
func slLen(s *Term) *Term  { return slField(s, 2) }
func slCap(s *Term) *Term  { return slField(s, 3) }

// ---- declarations

type Decls struct {
	order []string
	seen  map[string]bool
	// struct sorts
	structs    map[string]*types.Struct
	tids       map[string]int
	tidTy      map[string]types.Type
	structBase map[string]int
	structPkg  map[string]string
	tidSym     map[string]string
	facts      []*Term                   // global axioms (ground facts about symbols)
	foreign    map[*types.TypeParam]bool // type parameters of other generic functions met through captured()
}

func newDecls() *Decls {
	return &Decls{seen: map[string]bool{}, structs: map[string]*types.Struct{}, tids: map[string]int{}, tidTy: map[string]types.Type{}, structBase: map[string]int{}, structPkg: map[string]string{}, tidSym: map[string]string{}, foreign: map[*types.TypeParam]bool{}}
}

func (d *Decls) add(name, decl string) {
	if d.seen[name] {
		return
	}
	d.seen[name] = true
	d.order = append(d.order, decl)
}

func (d *Decls) declFun(name string, args []string, ret string) {
	d.add("fun:"+name, fmt.Sprintf("(declare-fun %s (%s) %s)", name, strings.Join(args, " "), ret))
}

func (d *Decls) declConst(name, sort string) {
	d.add("fun:"+name, fmt.Sprintf("(declare-fun %s () %s)", name, sort))
}

func (d *Decls) declSort(name string) {
	d.add("sort:"+name, fmt.Sprintf("(declare-sort %s 0)", name))
}

const preamble = `(declare-datatypes ((Ptr 0)) (((zz_nilptr) (zz_new (zz_new_id Int)) (zz_glob (zz_glob_id Int)) (zz_ext (zz_ext_id Int)) (zz_fld (zz_fld_base Ptr) (zz_fld_idx Int)) (zz_elem (zz_elem_base Ptr) (zz_elem_idx Int)))))
(declare-datatypes ((Slice 0)) (((zz_mkslice (zz_sl_base Ptr) (zz_sl_off Int) (zz_sl_len Int) (zz_sl_cap Int)))))
(declare-sort Iface 0)
(declare-sort Fn 0)
(define-sort StrSet () (Array String Bool))
(define-sort StrVals () (Array String Iface))
(declare-fun zz_ifnil () Iface)
(declare-fun zz_fnnil () Fn)
(declare-fun zz_dyn (Iface) Int)
(define-fun-rec zz_isnew ((p Ptr)) Bool (ite ((_ is zz_new) p) true (ite ((_ is zz_fld) p) (zz_isnew (zz_fld_base p)) (ite ((_ is zz_elem) p) (zz_isnew (zz_elem_base p)) false))))
(define-fun-rec zz_isglob ((p Ptr)) Bool (ite ((_ is zz_glob) p) true (ite ((_ is zz_fld) p) (zz_isglob (zz_fld_base p)) (ite ((_ is zz_elem) p) (zz_isglob (zz_elem_base p)) false))))
(assert (= (zz_dyn zz_ifnil) 0))
(declare-fun zz_cfresh (Ptr) Bool)
(assert (not (zz_cfresh zz_nilptr)))
(define-fun-rec zz_under ((a Ptr) (p Ptr)) Bool (or (= a p) (ite ((_ is zz_fld) a) (zz_under (zz_fld_base a) p) (ite ((_ is zz_elem) a) (zz_under (zz_elem_base a) p) false))))
(define-fun zz_tdiv ((a Int) (b Int)) Int (ite (>= a 0) (div a b) (- (div (- a) b))))
(define-fun zz_tmod ((a Int) (b Int)) Int (- a (* b (zz_tdiv a b))))
`

func sanitize(s string) string {
	var sb strings.Builder
	for _, r := range s {
		switch {
		case r >= 'a' && r <= 'z', r >= 'A' && r <= 'Z', r >= '0' && r <= '9', r == '_':
			sb.WriteRune(r)
		case r == '*':
			sb.WriteString("P")
		case r == '[':
			sb.WriteString("L")
		case r == ']':
			sb.WriteString("R")
		default:
			sb.WriteByte('_')
		}
	}
	return sb.String()
}

func shortQual(p *types.Package) string {
	if p == nil {
		return ""
	}
	return p.Name()
}

func typeStr(t types.Type) string { return types.TypeString(t, shortQual) }

const sortF64 = "(_ FloatingPoint 11 53)"
const sortF32 = "(_ FloatingPoint 8 24)"

// sortOf maps a Go type to an SMT sort, declaring what it needs.
func (d *Decls) sortOf(t types.Type) string {
	t = types.Unalias(t)
	switch tt := t.(type) {
	case *types.TypeParam:
		n := "TP_" + sanitize(tt.Obj().Name())
		d.declSort(n)
		return n
	case *types.Named:
		if st, ok := tt.Underlying().(*types.Struct); ok {
			sn := d.structSort(sanitizeTypeName(tt), st)
			if tt.Obj().Pkg() != nil {
				d.structPkg[sn] = tt.Obj().Pkg().Path()
			}
			return sn
		}
		return d.sortOf(tt.Underlying())
	case *types.Basic:
		switch {
		case tt.Info()&types.IsBoolean != 0:
			return "Bool"
		case tt.Info()&types.IsInteger != 0:
			return "Int"
		case tt.Kind() == types.Float32:
			return sortF32
		case tt.Info()&types.IsFloat != 0:
			return sortF64
		case tt.Info()&types.IsString != 0:
			return "String"
		case tt.Kind() == types.UnsafePointer:
			return "Ptr"
		case tt.Kind() == types.UntypedNil:
			return "Ptr"
		}
		d.declSort("Opaque")
		return "Opaque"
	case *types.Pointer, *types.Map, *types.Chan:
		return "Ptr"
	case *types.Slice:
		return "Slice"
	case *types.Signature:
		return "Fn"
	case *types.Interface:
		return "Iface"
	case *types.Struct:
		return d.structSort("anon_"+sanitize(typeStr(tt)), tt)
	case *types.Array:
		return "(Array Int " + d.sortOf(tt.Elem()) + ")"
	case *types.Tuple:
		return "Tuple"
	}
	d.declSort("Opaque")
	return "Opaque"
}

func sanitizeTypeName(n *types.Named) string {
	return sanitize(typeStr(n))
}

func (d *Decls) structSort(name string, st *types.Struct) string {
	sn := "S_" + name
	if len(sn) > 120 {
		sn = sn[:120]
	}
	if d.seen["sort:"+sn] {
		return sn
	}
	// declare field sorts first
	var fs []string
	d.seen["sort:"+sn] = true // guard (no value recursion possible in Go)
	for i := 0; i < st.NumFields(); i++ {
		fs = append(fs, fmt.Sprintf("(%s_f%d %s)", sn, i, d.sortOf(st.Field(i).Type())))
	}
	d.order = append(d.order, fmt.Sprintf("(declare-datatypes ((%s 0)) (((mk_%s %s))))", sn, sn, strings.Join(fs, " ")))
	d.structs[sn] = st
	d.structBase[sn] = (len(d.structBase) + 1) * 1000
	return sn
}

// structProj projects field i of a struct term
func (d *Decls) structProj(s *Term, st *types.Struct, i int) *Term {
	fs := d.sortOf(st.Field(i).Type())
	if strings.HasPrefix(s.Op, "mk_S_") && len(s.Args) == st.NumFields() {
		return s.Args[i]
	}
	return mk(fs, fmt.Sprintf("%s_f%d", s.Sort, i), s)
}

// fieldPtr is the address of field i of the struct (of sort sn) at base: field ids are unique per struct type,
// so fields of different struct types never alias (type-based disjointness).
func (d *Decls) fieldPtr(base *Term, sn string, i int) *Term {
	return pFld(base, d.structBase[sn]+i)
}

func (d *Decls) structMake(sortName string, fields []*Term) *Term {
	return mk(sortName, "mk_"+sortName, fields...)
}

// typeID returns the term for the dynamic type id of a concrete (or parametrised) type.
// canonType removes aliases at every level so that identical types print identically.
func canonType(t types.Type, depth int) types.Type {
	if depth > 8 {
		return t
	}
	switch tt := t.(type) {
	case *types.Alias:
		return canonType(types.Unalias(tt), depth+1)
	case *types.Pointer:
		return types.NewPointer(canonType(tt.Elem(), depth+1))
	case *types.Slice:
		return types.NewSlice(canonType(tt.Elem(), depth+1))
	case *types.Array:
		return types.NewArray(canonType(tt.Elem(), depth+1), tt.Len())
	case *types.Map:
		return types.NewMap(canonType(tt.Key(), depth+1), canonType(tt.Elem(), depth+1))
	case *types.Signature:
		conv := func(tu *types.Tuple) *types.Tuple {
			var vs []*types.Var
			for i := 0; i < tu.Len(); i++ {
				vs = append(vs, types.NewVar(0, nil, "", canonType(tu.At(i).Type(), depth+1)))
			}
			return types.NewTuple(vs...)
		}
		return types.NewSignatureType(nil, nil, nil, conv(tt.Params()), conv(tt.Results()), tt.Variadic())
	}
	return t
}

func (d *Decls) typeID(t types.Type) *Term {
	t = canonType(t, 0)
	s := types.TypeString(t, nil)
	if hasTypeParam(t) {
		sym := "zz_tid_" + sanitize(typeStr(t))
		if d.mentionsForeign(t) {
			sym += "_of_another_generic"
		}
		d.tidTy[sym] = t
		if !d.seen["fun:"+sym] {
			d.declConst(sym, "Int")
			d.facts = append(d.facts, mk("Bool", ">", mk("Int", sym), intLit(100000)))
		}
		return mk("Int", sym)
	}
	if id, ok := d.tids[s]; ok {
		return intLit(int64(id))
	}
	// stable id: hash of the string (collisions checked)
	h := 7
	for _, b := range []byte(s) {
		h = (h*31 + int(b)) % 99991
	}
	h++
	for {
		clash := false
		for _, v := range d.tids {
			if v == h {
				clash = true
			}
		}
		if !clash {
			break
		}
		h++
	}
	d.tids[s] = h
	d.tidTy[s] = t
	return intLit(int64(h))
}

// typeOfID maps a type-id term back to the Go type (when known)
func (d *Decls) typeOfID(t *Term) types.Type {
	if n, ok := isIntLit(t); ok {
		for s, id := range d.tids {
			if int64(id) == n {
				return d.tidTy[s]
			}
		}
		return nil
	}
	if len(t.Args) == 0 {
		return d.tidTy[t.Op]
	}
	return nil
}

// mentionsForeign: t mentions a type parameter of a generic function other than the one under verification (expr.go foreignType)
func (d *Decls) mentionsForeign(t types.Type) bool {
	if len(d.foreign) == 0 {
		return false
	}
	found := false
	var visit func(t types.Type, depth int)
	visit = func(t types.Type, depth int) {
		if found || depth > 6 || t == nil {
			return
		}
		switch tt := types.Unalias(t).(type) {
		case *types.TypeParam:
			if d.foreign[tt] {
				found = true
			}
		case *types.Pointer:
			visit(tt.Elem(), depth+1)
		case *types.Slice:
			visit(tt.Elem(), depth+1)
		case *types.Array:
			visit(tt.Elem(), depth+1)
		case *types.Map:
			visit(tt.Key(), depth+1)
			visit(tt.Elem(), depth+1)
		case *types.Named:
			ta := tt.TypeArgs()
			for i := 0; ta != nil && i < ta.Len(); i++ {
				visit(ta.At(i), depth+1)
			}
		}
	}
	visit(t, 0)
	return found
}

func hasTypeParam(t types.Type) bool {
	found := false
	var visit func(t types.Type, depth int)
	visit = func(t types.Type, depth int) {
		if found || depth > 6 {
			return
		}
		switch tt := types.Unalias(t).(type) {
		case *types.TypeParam:
			found = true
		case *types.Pointer:
			visit(tt.Elem(), depth+1)
		case *types.Slice:
			visit(tt.Elem(), depth+1)
		case *types.Array:
			visit(tt.Elem(), depth+1)
		case *types.Map:
			visit(tt.Key(), depth+1)
			visit(tt.Elem(), depth+1)
		case *types.Named:
			ta := tt.TypeArgs()
			for i := 0; i < ta.Len(); i++ {
				visit(ta.At(i), depth+1)
			}
		case *types.Signature:
			for i := 0; i < tt.Params().Len(); i++ {
				visit(tt.Params().At(i).Type(), depth+1)
			}
			for i := 0; i < tt.Results().Len(); i++ {
				visit(tt.Results().At(i).Type(), depth+1)
			}
		}
	}
	visit(t, 0)
	return found
}

// box/unbox function names for a payload sort
func sortTag(s string) string { return sanitize(s) }

func (d *Decls) boxFn(sort string) string {
	n := "zz_box_" + sortTag(sort)
	d.declFun(n, []string{"Int", sort}, "Iface")
	return n
}
func (d *Decls) unboxFn(sort string) string {
	n := "zz_unbox_" + sortTag(sort)
	d.declFun(n, []string{"Iface"}, sort)
	return n
}

// zero value of a type
func (d *Decls) zero(t types.Type) *Term {
	s := d.sortOf(t)
	switch s {
	case "Bool":
		return tFalse
	case "Int":
		return intLit(0)
	case "String":
		return strLit("")
	case "Ptr":
		return tNilP
	case "Iface":
		return tNilI
	case "Fn":
		return tNilF
	case "Slice":
		return mkSlice(tNilP, intLit(0), intLit(0), intLit(0))
	case sortF64:
		return mk(s, "(_ +zero 11 53)")
	case sortF32:
		return mk(s, "(_ +zero 8 24)")
	}
	if st, ok := d.structs[s]; ok {
		var fs []*Term
		for i := 0; i < st.NumFields(); i++ {
			fs = append(fs, d.zero(st.Field(i).Type()))
		}
		return d.structMake(s, fs)
	}
	n := "zz_zero_" + sortTag(s)
	d.declConst(n, s)
	return mk(s, n)
}

func (d *Decls) text() string {
	var sb strings.Builder
	sb.WriteString(preamble)
	for _, l := range d.order {
		sb.WriteString(l)
		sb.WriteByte('\n')
	}
	return sb.String()
}

// textFor emits the declarations, keeping a raw (assert ...) axiom only when one of the zz_ symbols it
// mentions occurs in the body of the query (keeps unrelated quantified axioms out of ground queries).
func (d *Decls) textFor(body string) string {
	var sb strings.Builder
	sb.WriteString(preamble)
	split := func(r rune) bool { return r == '(' || r == ')' || r == ' ' || r == '\n' }
	used := map[string]bool{}
	for _, tok := range strings.FieldsFunc(body, split) {
		used[tok] = true
	}
	// relevant raw axioms first (they may mention further symbols)
	keepAssert := map[int]bool{}
	for i, l := range d.order {
		if strings.HasPrefix(l, "(assert") {
			toks := strings.FieldsFunc(l, split)
			for _, tok := range toks {
				if strings.HasPrefix(tok, "zz_") && used[tok] {
					keepAssert[i] = true
					break
				}
			}
			if keepAssert[i] {
				for _, tok := range toks {
					used[tok] = true
				}
			}
		}
	}
	for i, l := range d.order {
		if strings.HasPrefix(l, "(assert") {
			if !keepAssert[i] {
				continue
			}
		} else if strings.HasPrefix(l, "(declare-const ") || strings.HasPrefix(l, "(declare-fun ") {
			// symbols no assertion of this query mentions are not declared (thousands of skolems otherwise)
			f := strings.FieldsFunc(l, split)
			if len(f) >= 2 && !used[f[1]] && (strings.HasPrefix(f[1], "zz_sk_") || strings.HasPrefix(f[1], "zz_undef_") || isNumberedSym(f[1])) {
				continue
			}
		}
		sb.WriteString(l)
		sb.WriteByte('\n')
	}
	return sb.String()
}

// isNumberedSym: engine-generated fresh symbols end in _<number>
func isNumberedSym(n string) bool {
	i := strings.LastIndexByte(n, '_')
	if i < 0 || i == len(n)-1 || !strings.HasPrefix(n, "zz_") {
		return false
	}
	for _, c := range n[i+1:] {
		if c < '0' || c > '9' {
			return false
		}
	}
	return true
}

func sortedKeys[V any](m map[string]V) []string {
	var ks []string
	for k := range m {
		ks = append(ks, k)
	}
	sort.Strings(ks)
	return ks
}

// substTerm replaces every occurrence of the variable term x (a nullary symbol) in t by r.
func substTerm(t, x, r *Term) *Term {
	if len(t.Args) == 0 {
		if t.Op == x.Op && t.Sort == x.Sort {
			return r
		}
		return t
	}
	changed := false
	args := make([]*Term, len(t.Args))
	for i, a := range t.Args {
		args[i] = substTerm(a, x, r)
		if args[i] != a {
			changed = true
		}
	}
	if !changed {
		return t
	}
	c := *t
	c.Args = args
	return &c
}
