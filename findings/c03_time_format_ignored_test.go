package zog

import (
	"testing"
	"time"
)

// Demonstration (C03): the Time.Format / Time.FormatFunc schema options are documented to select the layout used
// to coerce strings, but FormatFunc's body is commented out, so the option is silently ignored.
func TestZZFindingTimeFormatIgnored(t *testing.T) {
	var tm time.Time
	errs := Time(Time.Format("2006-01-02")).Parse("2024-01-02", &tm)
	if errs != nil {
		t.Fatalf("layout given with Time.Format was ignored: %v", errs)
	}
	if tm.Year() != 2024 || tm.Month() != 1 || tm.Day() != 2 {
		t.Fatalf("wrong time %v", tm)
	}
}
