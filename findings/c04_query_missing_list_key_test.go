package zhttp

// C04 / C14: a key that ends in "[]" and is missing from the query / form came back as a typed nil []string boxed in a
// non-nil interface, so Parse took it for a present value: a Required slice was satisfied by an absent parameter (the
// same record as a Go map reports `required`). Fixed by "fix: a missing list parameter of a query or form is absent".
import (
	"net/http/httptest"
	"testing"

	z "github.com/Oudwins/zog"
)

func TestC04MissingListParameterIsAbsent(t *testing.T) {
	type search struct {
		Name string
		Tags []string `query:"tags[]"`
	}
	schema := z.Struct(z.Schema{"name": z.String().Required(), "tags": z.Slice(z.String()).Required()})

	var viaMap search
	mapIssues := schema.Parse(map[string]any{"name": "x"}, &viaMap)
	if len(mapIssues["tags"]) != 1 {
		t.Fatalf("reference (map input): expected one required issue at tags, got %v", mapIssues)
	}

	var viaQuery search
	r := httptest.NewRequest("GET", "/search?name=x", nil)
	issues := schema.Parse(Request(r), &viaQuery)
	if len(issues["tags[]"]) != 1 {
		t.Fatalf("query without tags[]: expected one required issue at tags[], got %v (dest %+v)", issues, viaQuery)
	}
	dp := urlDataProvider{Data: r.URL.Query()}
	if d := dp.Get("tags[]"); d != nil {
		t.Fatalf("a missing key must be absent (nil), got %#v", d)
	}
}
