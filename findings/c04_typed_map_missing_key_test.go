package zog

import (
	"testing"

	"github.com/stretchr/testify/assert"
)

// C04: a key that is missing from the input is absent. For map[string]int / float64 / bool inputs the provider
// returned the element type's zero value for a missing key, which Parse treats as a PRESENT 0 / false: a required
// field that is simply not there produced no issue.
func TestC04TypedMapMissingKeyIsAbsent(t *testing.T) {
	type S struct {
		A int
		B int
	}
	schema := Struct(Schema{"A": Int().Required(), "B": Int().Required()})
	var dst S
	errs := schema.Parse(map[string]int{"A": 1}, &dst)
	if assert.Len(t, errs["B"], 1, "B is missing from the input and required") {
		assert.Equal(t, "required", errs["B"][0].Code)
	}
}
