package zog

import "testing"

// Demonstration (C01/C05/C09): struct.process reuses one child context for all fields and resets only Exit,
// so after a catching primitive was visited the remaining fields run with CanCatch still set: their issues are
// swallowed. Whether it happens depends on Go's map iteration order, hence the repetition.
func TestZZFindingCatchSwallowsSiblingIssues(t *testing.T) {
	type S struct {
		A int
		B []string
		C []string
		D []string
		E []string
	}
	schema := Struct(Schema{
		"a": Int().Catch(7),
		"b": Slice(String()).Required(),
		"c": Slice(String()).Required(),
		"d": Slice(String()).Required(),
		"e": Slice(String()).Required(),
	})
	for i := 0; i < 200; i++ {
		var s S
		errs := schema.Parse(map[string]any{"a": "not a number"}, &s)
		n := 0
		for k, v := range errs {
			if k != "$first" {
				n += len(v)
			}
		}
		if n != 4 {
			t.Fatalf("run %d: expected 4 required issues (b,c,d,e), got %d: %v", i, n, errs)
		}
	}
}

// Demonstration (C05): slices.process never resets the flags between elements: once one element was caught,
// every later element is replaced by the catch value although it is valid.
func TestZZFindingCatchLeaksToLaterElements(t *testing.T) {
	var out []int
	errs := Slice(Int().GT(5).Catch(99)).Parse([]any{1, 10, 20}, &out)
	if errs != nil {
		t.Fatalf("unexpected issues %v", errs)
	}
	if len(out) != 3 || out[0] != 99 || out[1] != 10 || out[2] != 20 {
		t.Fatalf("expected [99 10 20], got %v", out)
	}
}

// Same in Validate mode for struct fields.
func TestZZFindingValidateCatchLeaks(t *testing.T) {
	type S struct {
		A string
		B string
		C string
		D string
	}
	schema := Struct(Schema{
		"a": String().Min(3).Catch("AAA"),
		"b": String().Min(3).Catch("BBB"),
		"c": String().Min(3).Catch("CCC"),
		"d": String().Min(3).Catch("DDD"),
	})
	for i := 0; i < 100; i++ {
		s := S{A: "x", B: "valid", C: "valid", D: "valid"}
		schema.Validate(&s)
		if s.A != "AAA" || s.B != "valid" || s.C != "valid" || s.D != "valid" {
			t.Fatalf("run %d: valid fields were replaced by their catch values: %+v", i, s)
		}
	}
}
