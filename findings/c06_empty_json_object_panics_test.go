package zog

import (
	"strings"
	"testing"

	"github.com/Oudwins/zog/parsers/zjson"
)

// Demonstration (C06): the JSON document {} makes zjson.Decode return a nil provider without an issue
// (pinned by zhttp's TestParseJsonWithEmptyObject); a struct schema then dereferences the nil provider.
func TestZZFindingEmptyJSONObjectPanics(t *testing.T) {
	type S struct{ Name string }
	schema := Struct(Schema{"name": String().Required()})
	var s S
	defer func() {
		if r := recover(); r != nil {
			t.Fatalf("Parse panicked on {}: %v", r)
		}
	}()
	errs := schema.Parse(zjson.Decode(strings.NewReader("{}")), &s)
	if len(errs["name"]) != 1 {
		t.Fatalf("expected one required issue for name, got %v", errs)
	}
}
