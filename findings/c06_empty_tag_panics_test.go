package zog

import (
	"testing"

	"github.com/stretchr/testify/assert"
)

// C06/C10: a field whose zog (or source) tag is the empty string is pushed on the path as an empty segment;
// rendering the path of an issue below another field then indexes v[0] of "" and panics.
func TestC06EmptyTagSegmentPanics(t *testing.T) {
	type Inner struct {
		A string `zog:""`
	}
	type Outer struct {
		B Inner
	}
	schema := Struct(Schema{"B": Struct(Schema{"A": String().Required()})})
	var dst Outer
	assert.NotPanics(t, func() {
		errs := schema.Parse(map[string]any{"B": map[string]any{"other": 1}}, &dst)
		assert.NotEmpty(t, errs)
	})
}
