package zog

import "testing"

// Demonstration (C06): a schema key longer than 32 bytes is valid configuration, but Parse and Validate panic
// ("slice bounds out of range [:42] with length 32") because the key is capitalised in a fixed [32]byte buffer.
func TestZZFindingLongKeyPanics(t *testing.T) {
	type S struct {
		AbcdefghijAbcdefghijAbcdefghijAbcdefghij12 string
	}
	schema := Struct(Schema{"abcdefghijAbcdefghijAbcdefghijAbcdefghij12": String()})
	var s S
	func() {
		defer func() {
			if r := recover(); r != nil {
				t.Fatalf("Parse panicked on a 42-byte field name: %v", r)
			}
		}()
		schema.Parse(map[string]any{"abcdefghijAbcdefghijAbcdefghijAbcdefghij12": "x"}, &s)
	}()
	func() {
		defer func() {
			if r := recover(); r != nil {
				t.Fatalf("Validate panicked on a 42-byte field name: %v", r)
			}
		}()
		schema.Validate(&s)
	}()
	if s.AbcdefghijAbcdefghijAbcdefghijAbcdefghij12 != "x" {
		t.Fatalf("field not parsed: %+v", s)
	}
}
