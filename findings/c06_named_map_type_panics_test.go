package zog

import (
	"testing"

	"github.com/stretchr/testify/assert"
)

type namedMapH map[string]any

// C06: a map of a NAMED type (gin.H, bson.M, any `type H map[string]any`) has kind Map with string keys, so
// TryNewAnyDataProvider takes the map branch and then type-asserts the value to the UNNAMED map type: panic.
func TestC06NamedMapTypePanics(t *testing.T) {
	type S struct{ A string }
	schema := Struct(Schema{"A": String().Required()})
	var dst S
	assert.NotPanics(t, func() {
		errs := schema.Parse(namedMapH{"A": "x"}, &dst)
		assert.Empty(t, errs)
	})
	assert.Equal(t, "x", dst.A)
}
