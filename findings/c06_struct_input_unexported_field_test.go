package zog

import (
	"testing"

	"github.com/stretchr/testify/assert"
)

// C06: a struct used as INPUT whose field (named like a schema key) is unexported: StructDataProvider.Get calls
// reflect.Value.Interface on it, which panics.
func TestC06StructInputUnexportedField(t *testing.T) {
	type In struct {
		a string //nolint
		B string
	}
	type Out struct {
		A string
		B string
	}
	schema := Struct(Schema{"a": String(), "B": String()})
	var dst Out
	assert.NotPanics(t, func() {
		schema.Parse(In{a: "x", B: "y"}, &dst)
	})
}
