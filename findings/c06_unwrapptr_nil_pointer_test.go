package zog

import (
	"testing"

	"github.com/stretchr/testify/assert"
)

// C06: a Preprocess function that returns a nil pointer (e.g. "no value" for some inputs) made UnwrapPtr call
// Interface() on the zero reflect.Value it got from dereferencing nil: Parse panicked.
func TestC06PreprocessNilPointerResult(t *testing.T) {
	schema := Preprocess(func(data any, ctx Ctx) (*string, error) {
		s, ok := data.(string)
		if !ok || s == "" {
			return nil, nil
		}
		return &s, nil
	}, Ptr(String()))
	var dst *string
	assert.NotPanics(t, func() { schema.Parse(42, &dst) })
}
