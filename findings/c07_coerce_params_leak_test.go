package zog

import "testing"

// Demonstration (C07): IssueFromCoerce does not reset Params of the pooled issue, so a coerce issue
// carries the params of an unrelated earlier issue that was handed back with Issues.Collect*.
func TestZZFindingCoerceParamsLeak(t *testing.T) {
	var n int
	for i := 0; i < 20; i++ {
		errs := Int().GT(5).Parse(1, &n)
		Issues.CollectList(errs)
		errs = Int().Parse("not a number", &n)
		if len(errs) != 1 {
			t.Fatalf("expected one issue, got %d", len(errs))
		}
		if errs[0].Params != nil {
			t.Fatalf("coerce issue carries stale params: %v", errs[0].Params)
		}
	}
}
