package zog

// C07 / C02: Issues.CollectMap walks every key of the issue map, and the issue under "$first" is the same object as the
// first issue of its own path - so it was put into the issue pool twice. The next execution could then be handed the same
// *ZogIssue for two different violations: both paths report one object, and what it says is whatever was written last.
// Fixed by "fix: CollectMap returns the issue stored under $first to the pool only once".
import (
	"runtime/debug"
	"testing"
)

func TestC07CollectMapDoesNotPoolAnIssueTwice(t *testing.T) {
	defer debug.SetGCPercent(debug.SetGCPercent(-1)) // keep the pool's content across the calls below
	schema := Struct(Schema{"a": String().Required(), "b": Int().Required()})
	for round := 0; round < 200; round++ {
		var dst struct {
			A string
			B int
		}
		first := schema.Parse(map[string]any{}, &dst)
		if len(first["a"]) != 1 || len(first["b"]) != 1 {
			t.Fatalf("setup: %v", first)
		}
		Issues.CollectMap(first)
		second := schema.Parse(map[string]any{}, &dst)
		a, b := second["a"][0], second["b"][0]
		if a == b {
			t.Fatalf("round %d: after CollectMap the next execution got ONE issue object for two violations: a=%p b=%p path=%q", round, a, b, a.Path)
		}
		if a.Path != "a" || b.Path != "b" {
			t.Fatalf("round %d: wrong paths %q %q", round, a.Path, b.Path)
		}
		// leak the second map on purpose (not collected) so that every round starts from fresh objects
	}
}
