package zog

import "testing"

// Demonstration (C07): a context value set with WithCtxValue in one call is visible in the next call,
// because NewExecCtx does not reset the pooled ExecCtx's key/value map.
func TestZZFindingCtxValueLeak(t *testing.T) {
	var seen any
	s := String().TestFunc(func(val any, ctx Ctx) bool {
		seen = ctx.Get("k")
		return true
	})
	var d string
	s.Parse("a", &d, WithCtxValue("k", 1))
	seen = nil
	s.Parse("a", &d)
	if seen != nil {
		t.Fatalf("context value leaked into a later call: %v", seen)
	}
}
