package zog

// C09 through the public API: one schema, one input, one language map - the message of the issue under "name" must be
// the same on every run. Before "fix: default formatter fills placeholders in sorted key order" it flipped between two
// texts because the two test parameters contain each other's placeholder and were substituted in map order.
import (
	"testing"

	"github.com/Oudwins/zog/conf"
	"github.com/Oudwins/zog/zconst"
)

func TestC09ParseMessageDoesNotDependOnParamIterationOrder(t *testing.T) {
	lang := zconst.LangMap{zconst.TypeString: {"pair": "{{left}} and {{right}}", zconst.IssueCodeFallback: "x"}}
	schema := Struct(Schema{"name": String().TestFunc(func(v any, ctx Ctx) bool { return false },
		IssueCode("pair"), Params(map[string]any{"left": "{{right}}", "right": "{{left}}"}))})
	seen := map[string]int{}
	for i := 0; i < 400; i++ {
		var dst struct{ Name string }
		errs := schema.Parse(map[string]any{"name": "x"}, &dst, WithIssueFormatter(conf.NewDefaultFormatter(lang)))
		if len(errs["name"]) != 1 {
			t.Fatalf("expected one issue under name, got %v", errs)
		}
		seen[errs["name"][0].Message]++
	}
	if len(seen) != 1 {
		t.Fatalf("the same Parse call produced %d different messages: %v", len(seen), seen)
	}
}
