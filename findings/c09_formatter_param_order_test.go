package conf

// C09: the default formatter filled the {{param}} placeholders in map-iteration order, so a parameter whose rendered
// value contains another parameter's placeholder was (or was not) expanded again depending on the run. Fixed by
// substituting in sorted key order ("fix: default formatter substitutes parameters in sorted key order").
import (
	"testing"

	p "github.com/Oudwins/zog/internals"
	"github.com/Oudwins/zog/zconst"
)

func TestC09FormatterMessageDoesNotDependOnParamIterationOrder(t *testing.T) {
	m := zconst.LangMap{zconst.TypeString: {"pair": "{{left}} and {{right}}", zconst.IssueCodeFallback: "x"}}
	f := NewDefaultFormatter(m)
	seen := map[string]int{}
	for i := 0; i < 400; i++ {
		e := &p.ZogIssue{Code: "pair", Dtype: zconst.TypeString, Params: map[string]any{"left": "{{right}}", "right": "{{left}}"}}
		f(e, nil)
		seen[e.Message]++
	}
	if len(seen) != 1 {
		t.Fatalf("the same issue was formatted to %d different messages: %v", len(seen), seen)
	}
}
