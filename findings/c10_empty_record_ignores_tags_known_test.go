package zog

import (
	"strings"
	"testing"

	"github.com/Oudwins/zog/parsers/zjson"
	"github.com/stretchr/testify/assert"
)

// KNOWN FINDING (C10): for an empty record the EmptyDataProvider answers every lookup with the schema key, ignoring
// the field's tags, so the same missing field is reported under "name" for {"x":1} but under "Name" for {}.
func TestC10KnownEmptyRecordIgnoresTags(t *testing.T) {
	type S struct {
		Name string `json:"name"`
	}
	schema := Struct(Schema{"Name": String().Required()})
	var a, b S
	nonEmpty := schema.Parse(zjson.Decode(strings.NewReader(`{"x":1}`)), &a)
	empty := schema.Parse(zjson.Decode(strings.NewReader(`{}`)), &b)
	_, ok1 := nonEmpty["name"]
	_, ok2 := empty["name"]
	assert.True(t, ok1, "non-empty record: the issue is keyed by the json tag")
	assert.True(t, ok2, "empty record: the issue must be keyed by the json tag as well")
}
