package zog

import (
	"strings"
	"testing"

	"github.com/Oudwins/zog/parsers/zjson"
	"github.com/stretchr/testify/assert"
)

// KNOWN FINDING (C10, C14): a nested struct node re-derives its provider from the raw nested value with tag nil,
// so below the top level the json tag no longer names the key (and the issue path): the same record keyed by json
// tags parses at depth one and is reported missing at depth two.
func TestC10KnownNestedProviderLosesSourceTag(t *testing.T) {
	type Inner struct {
		Name string `json:"inner_name"`
	}
	type Outer struct {
		Top   string `json:"top_name"`
		Inner Inner  `json:"inner"`
	}
	schema := Struct(Schema{
		"top":   String().Required(),
		"inner": Struct(Schema{"name": String().Required()}),
	})
	var dst Outer
	errs := schema.Parse(zjson.Decode(strings.NewReader(`{"top_name":"a","inner":{"inner_name":"b"}}`)), &dst)
	assert.Empty(t, errs, "the json tag names the key at depth one (top_name) but not at depth two (inner_name)")
	assert.Equal(t, "b", dst.Inner.Name)
}
