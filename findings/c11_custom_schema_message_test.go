package zog

import (
	"testing"

	"github.com/stretchr/testify/assert"
)

// C11: a failing Custom schema without its own message must still carry a non-empty message.
func TestC11CustomSchemaMessage(t *testing.T) {
	schema := CustomFunc(func(p *int, ctx Ctx) bool { return *p > 0 })
	var dst int
	errs := schema.Parse(-1, &dst)
	if assert.Len(t, errs, 1) {
		assert.NotEmpty(t, errs[0].Message)
	}
}
