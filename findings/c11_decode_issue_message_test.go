package zog

import (
	"strings"
	"testing"

	"github.com/Oudwins/zog/parsers/zjson"
	"github.com/stretchr/testify/assert"
)

// C11: the issue for an undecodable JSON body must carry the node's type and a non-empty message.
func TestC11DecodeIssueHasTypeAndMessage(t *testing.T) {
	type S struct{ A string }
	schema := Struct(Schema{"A": String()})
	var dst S
	errs := schema.Parse(zjson.Decode(strings.NewReader(`{"A":`)), &dst)
	if assert.Len(t, errs["$root"], 1) {
		iss := errs["$root"][0]
		assert.Equal(t, "invalid_json", iss.Code)
		assert.Equal(t, "struct", iss.Dtype)
		assert.NotEmpty(t, iss.Message)
	}
}
