package zog

import (
	"strings"
	"testing"

	"github.com/stretchr/testify/assert"
)

// C11: the number one_of message must not contain an unresolved placeholder.
func TestC11NumberOneOfPlaceholder(t *testing.T) {
	var dst int
	errs := Int().OneOf([]int{1, 2}).Parse(5, &dst)
	if assert.Len(t, errs, 1) {
		assert.False(t, strings.Contains(errs[0].Message, "{{"), errs[0].Message)
	}
}
