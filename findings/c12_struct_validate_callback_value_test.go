package zog

import "testing"

// Demonstration (C12): struct.validate hands ctx.Data to the node's tests and PostTransforms; under a Slice or a
// Ptr in Validate mode that is nil, so the callbacks do not receive the node's own value.
func TestZZFindingStructValidateCallbackGetsNil(t *testing.T) {
	type Item struct{ N int }
	var got []any
	schema := Slice(Struct(Schema{"n": Int()}).TestFunc(func(val any, ctx Ctx) bool {
		got = append(got, val)
		return true
	}))
	items := []Item{{1}, {2}}
	schema.Validate(&items)
	if len(got) != 2 {
		t.Fatalf("test ran %d times", len(got))
	}
	for i, g := range got {
		p, ok := g.(*Item)
		if !ok || p != &items[i] {
			t.Fatalf("callback %d received %#v, want pointer to items[%d]", i, g, i)
		}
	}
}
