package zog

import (
	"os"
	"testing"

	"github.com/Oudwins/zog/zenv"
	"github.com/stretchr/testify/assert"
)

// KNOWN FINDING (C14): flat sources (environment, query, form) are documented to resolve nested struct fields
// against the same source, but a nested struct node re-derives its provider from the raw nested VALUE (here the
// string os.Getenv returned for the outer key) instead of asking the parent provider, so the documented nested
// zenv configuration is reported as a coerce issue.
func TestC14KnownFlatSourceNestedStruct(t *testing.T) {
	type DB struct {
		Host string `env:"DB_HOST"`
	}
	type Cfg struct {
		DB DB
	}
	os.Setenv("DB_HOST", "localhost")
	defer os.Unsetenv("DB_HOST")
	schema := Struct(Schema{"DB": Struct(Schema{"Host": String().Required()})})
	var cfg Cfg
	errs := schema.Parse(zenv.NewDataProvider(), &cfg)
	assert.Empty(t, errs)
	assert.Equal(t, "localhost", cfg.DB.Host)
}
