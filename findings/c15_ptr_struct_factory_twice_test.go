package zog

import (
	"strings"
	"testing"

	"github.com/Oudwins/zog/parsers/zjson"
)

// Demonstration (C15/C14): behind a Ptr the struct schema receives the provider *factory* again instead of the
// decoded record, so the request body is decoded twice and a valid JSON document ends in "invalid_json ... EOF".
func TestZZFindingPtrStructDecodesTwice(t *testing.T) {
	type User struct {
		Name string `json:"name"`
	}
	schema := Ptr(Struct(Schema{"name": String().Required()}))
	var u *User
	errs := schema.Parse(zjson.Decode(strings.NewReader(`{"name":"x"}`)), &u)
	if errs != nil {
		t.Fatalf("valid body rejected: %v", errs)
	}
	if u == nil || u.Name != "x" {
		t.Fatalf("not parsed: %+v", u)
	}
}
