package zog

import (
	"testing"

	"github.com/stretchr/testify/assert"
)

// C16: schemas derived from a common base must not influence one another. cloneShallow copied the tests slice
// header including its spare capacity, so two derivations appended their next test into the same array slot.
func TestC16DerivedSchemasShareSpareCapacity(t *testing.T) {
	type S struct{ A string }
	base := Struct(Schema{"A": String()})
	// give the base's test list spare capacity (three appends: cap 4, len 3)
	pass := func(val any, ctx Ctx) bool { return true }
	base.TestFunc(pass).TestFunc(pass).TestFunc(pass)

	failA := func(val any, ctx Ctx) bool { return false }
	a := base.Extend(Schema{}).TestFunc(failA, Message("from a"))
	b := base.Extend(Schema{}).TestFunc(pass) // must not touch a

	var dst S
	errs := a.Parse(map[string]any{"A": "x"}, &dst)
	assert.NotEmpty(t, errs, "schema a lost its failing test after b was derived and extended")
	_ = b
}
