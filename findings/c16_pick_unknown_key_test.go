package zog

import (
	"testing"

	"github.com/stretchr/testify/assert"
)

// C16: Pick returns a schema whose fields are exactly the selected fields OF THE BASE. Picking a name the base does
// not have used to insert a nil schema under that name, which then panics in Parse.
func TestC16PickUnknownKey(t *testing.T) {
	type S struct{ A string }
	base := Struct(Schema{"A": String()})
	picked := base.Pick("A", "Nope")
	_, has := picked.schema["Nope"]
	assert.False(t, has, "Pick invented a field the base does not have")
	var dst S
	assert.NotPanics(t, func() { picked.Parse(map[string]any{"A": "x"}, &dst) })
}
