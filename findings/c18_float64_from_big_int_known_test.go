package zog

import "testing"

// KNOWN FINDING (C18, not repaired): an int beyond 2^53 is rounded when coerced to float64.
// The test documents the behaviour: it FAILS on the current tree (that is the finding).
func TestZZKnownFindingFloat64FromBigInt(t *testing.T) {
	var f float64
	in := 9007199254740993 // 2^53 + 1
	errs := Float64().Parse(in, &f)
	if errs == nil && int(f) != in {
		t.Fatalf("Float64().Parse(%d) silently became %.0f", in, f)
	}
}
