package zog

import (
	"math"
	"testing"
)

// Demonstrations (C18): out-of-range numbers are silently turned into unrelated values.
func TestZZFindingIntFromHugeFloat(t *testing.T) {
	for _, in := range []float64{1e19, -1e19, math.NaN(), math.Inf(1)} {
		var n int
		errs := Int().Parse(in, &n)
		if errs == nil {
			t.Errorf("Int().Parse(%v) gave %d without an issue", in, n)
		}
	}
}

func TestZZFindingInt32Wraps(t *testing.T) {
	var n int32
	errs := Int32().Parse("3000000000", &n)
	if errs == nil {
		t.Errorf(`Int32().Parse("3000000000") gave %d without an issue`, n)
	}
	errs = Int32().Parse(3e9, &n)
	if errs == nil {
		t.Errorf(`Int32().Parse(3e9) gave %d without an issue`, n)
	}
}

func TestZZFindingFloat32Overflows(t *testing.T) {
	var f float32
	errs := Float32().Parse(1e300, &f)
	if errs == nil {
		t.Errorf("Float32().Parse(1e300) gave %v without an issue", f)
	}
}
