package zog

// KNOWN FINDING (C19, recorded, not repaired): in Validate a slice schema copies its Default one level deep
// (reflect.Copy). When the elements themselves hold references - a default of type [][]int, []map[string]int, []*T -
// the destination shares the inner backing arrays with the schema's default, so a PostTransform (or the caller) that
// writes through the destination rewrites the default every later execution starts from. A repair needs a deep copy of
// arbitrary user types (or a documented restriction of Default values): not a small, safe patch.
// This test documents the behaviour: it PASSES while the defect is present.
import "testing"

func TestC19KnownNestedSliceDefaultIsSharedInValidate(t *testing.T) {
	def := [][]int{{1, 2}}
	s := Slice(Slice(Int())).Default(def).PostTransform(func(p any, ctx Ctx) error {
		d := p.(*[][]int)
		(*d)[0][0] = 99
		return nil
	})
	var dst [][]int
	if errs := s.Validate(&dst); errs != nil {
		t.Fatalf("unexpected issues: %v", errs)
	}
	if def[0][0] != 99 {
		t.Fatalf("the known finding no longer reproduces (default untouched: %v) - remove it from known_findings.json", def)
	}
}
