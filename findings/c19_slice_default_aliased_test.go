package zog

import "testing"

// Demonstration (C19): in Validate a slice Default is installed by copying the slice header, so the destination
// shares the default's backing array; a PostTransform (or the caller) writing through the destination rewrites
// the schema's default for every later call.
func TestZZFindingSliceDefaultAliased(t *testing.T) {
	schema := Slice(String()).Default([]string{"a", "b"}).PostTransform(func(val any, ctx Ctx) error {
		s := val.(*[]string)
		(*s)[0] = "MUTATED"
		return nil
	})
	var first []string
	schema.Validate(&first)
	var second []string
	errs := Slice(String()).Default([]string{"x"}).Validate(&second)
	_ = errs
	var third []string
	schema2 := Slice(String()).Default([]string{"a", "b"})
	schema2.Validate(&third)
	third[0] = "changed by caller"
	var fourth []string
	schema2.Validate(&fourth)
	if fourth[0] != "a" {
		t.Fatalf("the schema's default was modified through an earlier destination: %v", fourth)
	}
}
