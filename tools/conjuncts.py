#!/usr/bin/env python3
# debugging aid: split the goal of an SMT file into conjuncts and check each separately
import sys,re,subprocess
src=open(sys.argv[1]).read()
to=sys.argv[2] if len(sys.argv)>2 else '5'
lines=src.split('\n')
gi=[i for i,l in enumerate(lines) if l.startswith('; goal')][0]
goal=lines[gi+1]
def parse(s):
    toks=re.findall(r'\(|\)|"(?:[^"]|"")*"|[^\s()]+',s)
    pos=0
    def rd():
        nonlocal pos
        t=toks[pos]; pos+=1
        if t=='(':
            l=[]
            while toks[pos]!=')': l.append(rd())
            pos+=1
            return l
        return t
    return rd()
def show(e):
    return e if isinstance(e,str) else '('+' '.join(show(x) for x in e)+')'
g=parse(goal)
X=g[1][1]
def conj(e):
    if isinstance(e,list) and e and e[0]=='and':
        r=[]
        for x in e[1:]: r+=conj(x)
        return r
    if isinstance(e,list) and e and e[0]=='=>' and isinstance(e[2],list) and e[2][0]=='and':
        return [['=>',e[1],c] for c in conj(e[2])]
    return [e]
cs=conj(X)
print(len(cs),"conjuncts")
for c in cs:
    body='\n'.join(lines[:gi+1])+'\n(assert (not '+show(c)+'))\n(check-sat)\n'
    open('/tmp/conj_t.smt2','w').write(body)
    r=subprocess.run(['z3-new','-T:'+to,'/tmp/conj_t.smt2'],capture_output=True,text=True).stdout.split('\n')[0]
    print(r, show(c)[:400])
