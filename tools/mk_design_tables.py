#!/usr/bin/env python3
"""Regenerates the generated part of DESIGN.md section 13 (between the markers) from MANIFEST.json, evidence/*.json,
known_findings.json, seeded/*/meta.json and selftest/expected.tsv."""
import json, glob, os, re, collections
V = '/verif'
man = json.load(open(f'{V}/MANIFEST.json'))
kf = json.load(open(f'{V}/known_findings.json'))
muts = collections.defaultdict(list)
for l in open(f'{V}/selftest/expected.tsv'):
    if l.strip() and not l.startswith('#'):
        p, prop, want = l.rstrip('\n').split('\t')
        muts[prop].append((p, want))
out = []
out.append('| property | obligations (VCs) quick | functions | fixes recorded | open findings | must-fail cases |')
out.append('|---|---|---|---|---|---|')
for c in man['checks']:
    pid = c['property_id']
    ev = {}
    try:
        ev = json.load(open(f'{V}/evidence/{pid}.json'))
    except Exception:
        pass
    cov = ev.get('coverage', {})
    nfix = sum(1 for f in kf['fixed'] if f'property={pid} ' in f)
    nopen = sum(1 for f in kf['findings'] if f['property'] == pid)
    out.append(f"| {pid} | {cov.get('obligations','?')} ({cov.get('vcs','?')}) | {len(cov.get('functions_under_contract',[]))} | {nfix} | {nopen} | {len(muts.get(pid,[]))} |")
out.append('')
out.append('### 13.3 Changes seeded by independent sub-agents (each got only the property text and a scratch worktree)')
out.append('')
out.append('| seed | property | what the change does | caught by obligation | first run |')
out.append('|---|---|---|---|---|')
for d in sorted(glob.glob(f'{V}/seeded/*')):
    try:
        m = json.load(open(d + '/meta.json'))
    except Exception:
        continue
    brk = m.get('needs_to_manifest') or m.get('breaks', '')
    brk = re.sub(r'\s+', ' ', brk)[:170].replace('|', '/')
    st = m.get('status', '')
    first = 'caught' if st.startswith('caught') else ('missed, contract strengthened' if 'missed' in st else st[:40])
    out.append(f"| {m['id']} | {m['property']} | {brk} | `{m.get('caught_by','')}` | {first} |")
out.append('')
out.append('### 13.4 Must-fail corpus (`bin/selftest`): reverts of every fix, hand-written mutants, the seeds')
out.append('')
for prop in sorted(muts):
    names = ', '.join(p.replace('.patch', '') for p, _ in muts[prop])
    out.append(f'* **{prop}** ({len(muts[prop])}): {names}')
txt = '\n'.join(out) + '\n'
p = f'{V}/DESIGN.md'
s = open(p).read()
a = s.index('<!-- GENERATED-TABLES-BEGIN -->') + len('<!-- GENERATED-TABLES-BEGIN -->\n')
b = s.index('<!-- GENERATED-TABLES-END -->')
s = s[:a] + txt + s[b:]
open(p, 'w').write(s)
print('tables regenerated')
